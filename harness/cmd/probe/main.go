// probe: reproduces, on the simulated peer, each defect listed in DESIGN §6 (one named probe
// each). Prints "DEFECT <name>: <evidence>" when the defect shows and "OK <name>: <evidence>"
// when the code behaves as the property demands. `probe child <name>` runs one probe in this
// process (used for probes that may kill the process).
package main

import (
	"encoding/hex"
	"fmt"
	"os"
	"os/exec"
	"sort"
	"strings"

	"verifharness/simpeer"
	"verifharness/world"

	fpb "github.com/anoideaopen/foundation/proto"
	"github.com/btcsuite/btcutil/base58"
	"golang.org/x/crypto/sha3"
)

type probe struct {
	name string
	f    func() (bool, string) // defect shown?, evidence
}

func bal(c *world.Chan, addr string) string {
	p, e := c.Query("balanceOf", addr)
	return p + e
}

var probes = []probe{
	{"C01-blank-signature", func() (bool, string) {
		w := world.New(3, fpb.KeyType_ed25519)
		c := w.AddChannel("VT", world.Options{})
		c.Do(w.Issuer, "emit", w.Users[0].Addr, "1000")
		// attacker: victim's PUBLIC key, empty signature
		args := []string{"", "vt", "vt", w.Users[1].Addr, "700", "ref", w.NextNonce(), w.Users[0].PubB58, ""}
		id, r := c.Submit("transfer", args)
		if !r.OK() {
			return false, "submission rejected: " + r.Resp.Message
		}
		b := c.ExecIDs(id)
		return bal(c, w.Users[1].Addr) == `"700"`, fmt.Sprintf("victim=%s attacker-chosen recipient=%s err=%v", bal(c, w.Users[0].Addr), bal(c, w.Users[1].Addr), b.Resp.GetTxResponses()[0].GetError())
	}},
	{"C11-disabled-via-tasks", func() (bool, string) {
		w := world.New(3, fpb.KeyType_ed25519)
		c := w.AddChannel("VT", world.Options{Disabled: []string{"TxTransfer"}})
		c.Do(w.Issuer, "emit", w.Users[0].Addr, "1000")
		e1 := c.Do(w.Users[0], "transfer", w.Users[1].Addr, "100", "r")
		b := c.ExecTasks(&fpb.Task{Id: simpeer.NewTxID(), Method: "transfer", Args: c.Signed(w.Users[0], "transfer", w.Users[1].Addr, "100", "r")})
		return bal(c, w.Users[1].Addr) == `"100"`, fmt.Sprintf("batched route: %q; task route err=%v; recipient=%s", e1, b.Resp.GetTxResponses()[0].GetError(), bal(c, w.Users[1].Addr))
	}},
	{"C15-query-via-tasks-writes", func() (bool, string) {
		w := world.New(3, fpb.KeyType_ed25519)
		c := w.AddChannel("VT", world.Options{})
		r := c.Invoke(w.Client.Creator, simpeer.NewTxID(), "poke", c.Signed(w.Users[0], "poke", "put:qk:qv")...)
		direct := string(c.L.State["qk"])
		b := c.ExecTasks(&fpb.Task{Id: simpeer.NewTxID(), Method: "poke", Args: c.Signed(w.Users[0], "poke", "put:qk:qv")})
		return string(c.L.State["qk"]) == "qv", fmt.Sprintf("direct ok=%v wrote=%q; task err=%v wrote=%q", r.OK(), direct, b.Resp.GetTxResponses()[0].GetError(), string(c.L.State["qk"]))
	}},
	{"C15-direct-query-auth-write", func() (bool, string) {
		w := world.New(3, fpb.KeyType_ed25519)
		c := w.AddChannel("VT", world.Options{})
		u := w.Users[0]
		resp := w.ACL.DefaultResponse([]string{u.PubB58}, 0)
		resp.Address.SignedTx = []string{"changed", "keys"}
		w.ACL.ByKeys[u.PubB58] = &simpeer.ACLEntry{Mode: simpeer.ACLOk, Resp: resp}
		before := len(c.L.State)
		r := c.Invoke(w.Client.Creator, simpeer.NewTxID(), "poke", c.Signed(u, "poke", "nop")...)
		var ks []string
		for _, x := range r.Stub.WriteSet() {
			ks = append(ks, strings.ReplaceAll(x.Key, "\x00", "|"))
		}
		return len(c.L.State) != before, fmt.Sprintf("query ok=%v write-set=%v", r.OK(), ks)
	}},
	{"C07-stale-fee", func() (bool, string) {
		w := world.New(3, fpb.KeyType_ed25519)
		c := w.AddChannel("VT", world.Options{})
		// ledger without metadata: funds written directly (no emission record yet)
		k, _ := c.Simulate(nil, "00", "x").Stub.CreateCompositeKey("2b", []string{w.Users[0].Addr})
		c.L.State[k] = []byte{0x03, 0xe8}
		// a setFee that is rejected (unknown currency) and therefore never committed
		e1 := c.Do(w.FeeSet, "setFee", "NOPE", "1", "0", "0")
		e2 := c.Do(w.Users[0], "transfer", w.Users[1].Addr, "100", "r")
		c.FreshInstance()
		e3 := c.Do(w.Users[0], "transfer", w.Users[1].Addr, "100", "r")
		return e2 != "" && e3 == "", fmt.Sprintf("rejected setFee: %q; transfer on long-lived instance: %q; same transfer on fresh instance: %q", e1, e2, e3)
	}},
	{"C13-zero-lock", func() (bool, string) {
		w := world.New(3, fpb.KeyType_ed25519)
		c := w.AddChannel("VT", world.Options{})
		c.Do(w.Issuer, "emit", w.Users[0].Addr, "1000")
		req := fmt.Sprintf(`{"id":"L1","address":"%s","token":"VT","amount":"0","reason":"r"}`, w.Users[0].Addr)
		e := c.Do(w.AdminU, "lockTokenBalance", req)
		p, qe := c.Query("getLockedTokenBalance", "L1")
		return e == "" && qe == "", fmt.Sprintf("lock err=%q; record=%s %s", e, p, qe)
	}},
	{"C05-unknown-id-empty-key-delete", func() (bool, string) {
		w := world.New(3, fpb.KeyType_ed25519)
		c := w.AddChannel("VT", world.Options{})
		c.L.Strict = true
		c.Do(w.Issuer, "emit", w.Users[0].Addr, "1000")
		id, _ := c.Submit("transfer", c.Signed(w.Users[0], "transfer", w.Users[1].Addr, "100", "r"))
		b := c.ExecIDs("00aabbccddeeff00", id)
		return b.Resp == nil || bal(c, w.Users[1].Addr) != `"100"`, fmt.Sprintf("batch ok=%v msg=%q recipient=%s", b.Res.OK(), b.Res.Resp.Message, bal(c, w.Users[1].Addr))
	}},
	{"C04-task-recipient-is-signer", func() (bool, string) {
		w := world.New(3, fpb.KeyType_ed25519)
		c := w.AddChannel("VT", world.Options{})
		c.Do(w.Issuer, "emit", w.Users[0].Addr, "1000")
		c.Do(w.Issuer, "emit", w.Users[1].Addr, "1000")
		t1 := &fpb.Task{Id: simpeer.NewTxID(), Method: "transfer", Args: c.Signed(w.Users[0], "transfer", w.Users[1].Addr, "100", "r")}
		t2 := &fpb.Task{Id: simpeer.NewTxID(), Method: "transfer", Args: c.Signed(w.Users[1], "transfer", w.Users[0].Addr, "30", "r")}
		b := c.ExecTasks(t1, t2)
		var errs []string
		for _, tr := range b.Resp.GetTxResponses() {
			errs = append(errs, tr.GetError().GetError())
		}
		return strings.Join(errs, "") != "", fmt.Sprintf("task errors=%q balances %s %s", errs, bal(c, w.Users[0].Addr), bal(c, w.Users[1].Addr))
	}},
	{"C04-panicking-task-aborts-list", func() (bool, string) {
		w := world.New(3, fpb.KeyType_ed25519)
		c := w.AddChannel("VT", world.Options{})
		c.Do(w.Issuer, "emit", w.Users[0].Addr, "1000")
		t1 := &fpb.Task{Id: simpeer.NewTxID(), Method: "script", Args: c.Signed(w.Users[2], "script", "put:a:1;panic")}
		t2 := &fpb.Task{Id: simpeer.NewTxID(), Method: "transfer", Args: c.Signed(w.Users[0], "transfer", w.Users[1].Addr, "100", "r")}
		b := c.ExecTasks(t1, t2)
		return b.Resp == nil, fmt.Sprintf("list ok=%v msg=%q panic=%v recipient=%s", b.Res.OK(), b.Res.Resp.Message, b.Res.Panic, bal(c, w.Users[1].Addr))
	}},
	{"C14-short-task-args", func() (bool, string) {
		w := world.New(3, fpb.KeyType_ed25519)
		c := w.AddChannel("VT", world.Options{})
		b := c.ExecTasks(&fpb.Task{Id: simpeer.NewTxID(), Method: "transfer", Args: []string{"a"}})
		return false, fmt.Sprintf("process alive; list ok=%v task err=%v", b.Res.OK(), b.Resp.GetTxResponses())
	}},
	{"C08-swap-overwrite-via-tasks", func() (bool, string) {
		w := world.New(3, fpb.KeyType_ed25519)
		c := w.AddChannel("VT", world.Options{})
		w.AddChannel("CC", world.Options{})
		c.Do(w.Issuer, "emit", w.Users[0].Addr, "1000")
		c.Do(w.Issuer, "emit", w.Users[1].Addr, "1000")
		h := sha3.Sum256([]byte("key1"))
		id, r := c.Submit("swapBegin", c.Signed(w.Users[0], "swapBegin", "VT", "CC", "450", hex.EncodeToString(h[:])))
		if !r.OK() {
			return false, "submit failed " + r.Resp.Message
		}
		c.ExecIDs(id)
		before, _ := c.Query("swapGet", id)
		// a different user re-uses the id through the task route
		b := c.ExecTasks(&fpb.Task{Id: id, Method: "swapBegin", Args: c.Signed(w.Users[1], "swapBegin", "VT", "CC", "1", hex.EncodeToString(h[:]))})
		after, _ := c.Query("swapGet", id)
		return before != after, fmt.Sprintf("task err=%v; record before=%s after=%s; victim balance=%s", b.Resp.GetTxResponses()[0].GetError(), before, after, bal(c, w.Users[0].Addr))
	}},
	{"C08-reverse-grouped-done", func() (bool, string) {
		w := world.New(3, fpb.KeyType_ed25519)
		vt := w.AddChannel("VT", world.Options{})
		u := w.Users[0]
		// VT channel answers a reverse swap of VT_g1 coming back from CC: given[CC] must cover it
		gk, _ := vt.Simulate(nil, "00", "x").Stub.CreateCompositeKey("2d", []string{"CC"})
		vt.L.State[gk] = []byte{0x01, 0xc2} // 450
		h := sha3.Sum256([]byte("key1"))
		sid := simpeer.NewTxID()
		idb, _ := hex.DecodeString(sid)
		ans := vt.ExecBatch(&fpb.Batch{Swaps: []*fpb.Swap{{Id: idb, Creator: []byte("0000"), Owner: u.AddrRaw, Token: "VT_g1", Amount: []byte{0x01, 0xc2}, From: "CC", To: "VT", Hash: h[:], Timeout: 1}}})
		r := vt.Invoke(w.Client.Creator, simpeer.NewTxID(), "swapDone", sid, "key1")
		plain := bal(vt, u.Addr)
		grp, _ := vt.Query("industrialBalanceOf", u.Addr)
		return plain == `"450"`, fmt.Sprintf("answer err=%v done ok=%v msg=%q plain=%s groups=%s", ans.Resp.GetSwapResponses()[0].GetError(), r.OK(), r.Resp.Message, plain, grp)
	}},
	{"C04-foreign-multiswap-cancel-fails-the-batch", func() (bool, string) {
		// one batch: a transfer, and a multiSwapCancel by somebody who is not the creator. The
		// refusal's error text embeds the creator's raw address bytes; if the reply cannot be
		// encoded because of it the WHOLE batch fails and the transfer is lost with it.
		w := world.New(3, fpb.KeyType_ed25519)
		c := w.AddChannel("VT", world.Options{})
		owner, stranger := w.Users[0], w.Users[1]
		c.Do(w.Issuer, "emitIndustrial", owner.Addr, "100", "G1")
		c.Do(w.Issuer, "emit", owner.Addr, "1000")
		h := sha3.Sum256([]byte("k"))
		sid, r0 := c.Submit("multiSwapBegin", c.Signed(owner, "multiSwapBegin", "VT", `{"assets":[{"group":"VT_G1","amount":"10"}]}`, "CC", hex.EncodeToString(h[:])))
		b0 := c.ExecIDs(sid)
		id1, _ := c.Submit("transfer", c.Signed(owner, "transfer", w.Users[2].Addr, "5", "ref"))
		id2, _ := c.Submit("multiSwapCancel", c.Signed(stranger, "multiSwapCancel", sid))
		b := c.ExecIDs(id1, id2)
		got := bal(c, w.Users[2].Addr)
		failed := b.Resp == nil
		msg := ""
		if failed {
			msg = b.Res.Resp.Message
		}
		return failed || got != `"5"`, fmt.Sprintf("begin submit ok=%v executed=%v; batch [transfer, foreign cancel] whole-batch failure=%v msg=%q recipient balance=%s", r0.OK(), b0.Resp != nil && b0.Resp.TxResponses[0].GetError() == nil, failed, msg, got)
	}},
}

func main() {
	if len(os.Args) >= 3 && os.Args[1] == "child" {
		for _, p := range probes {
			if p.name == os.Args[2] {
				d, ev := p.f()
				if d {
					fmt.Printf("DEFECT %s: %s\n", p.name, ev)
				} else {
					fmt.Printf("OK %s: %s\n", p.name, ev)
				}
				return
			}
		}
		os.Exit(2)
	}
	_ = base58.Encode
	names := make([]string, 0)
	for _, p := range probes {
		names = append(names, p.name)
	}
	sort.Strings(names)
	for _, n := range names {
		if len(os.Args) > 1 && !strings.Contains(n, os.Args[1]) {
			continue
		}
		cmd := exec.Command(os.Args[0], "child", n)
		out, err := cmd.CombinedOutput()
		txt := strings.TrimSpace(string(out))
		if err != nil {
			lines := strings.Split(txt, "\n")
			first := ""
			for _, l := range lines {
				if strings.HasPrefix(l, "panic:") || strings.HasPrefix(l, "fatal error:") {
					first = l
					break
				}
			}
			fmt.Printf("DEFECT %s: process died (%v) %s\n", n, err, first)
			continue
		}
		fmt.Println(txt)
	}
}
