package main

import (
	"fmt"

	"verifharness/world"

	fpb "github.com/anoideaopen/foundation/proto"
)

func main() {
	w := world.New(3, fpb.KeyType_ed25519)
	c := w.AddChannel("VT", world.Options{})
	fmt.Println("emit:", c.Do(w.Issuer, "emit", w.Users[0].Addr, "1000"))
	fmt.Println("transfer:", c.Do(w.Users[0], "transfer", w.Users[1].Addr, "300", "ref"))
	fmt.Println(c.Query("balanceOf", w.Users[0].Addr))
	fmt.Println(c.Query("balanceOf", w.Users[1].Addr))
	fmt.Println(c.Query("metadata"))
}
