// vh: the harness CLI.
//
//	vh run <property> -tier quick -seed 1 -out DIR   generate histories, execute them on the real
//	     code, write DIR/<property>.trace and DIR/<property>.stats.json
//	vh replay <property> <file>                       re-execute the op lines of one or more
//	     histories stored in <file> (text after " => " is ignored) and print "op => observed"
package main

import (
	"bufio"
	"flag"
	"fmt"
	"math/rand"
	"os"
	"path/filepath"
	"strings"

	"verifharness/drive"
	"verifharness/facts"
	"verifharness/trace"
	_ "verifharness/world"
)

func main() {
	if len(os.Args) < 3 {
		fmt.Fprintln(os.Stderr, "usage: vh run|replay <property> ...")
		os.Exit(2)
	}
	cmd, prop := os.Args[1], os.Args[2]
	if cmd == "facts" {
		fs := flag.NewFlagSet("facts", flag.ExitOnError)
		repo := fs.String("repo", "/repo", "repository root")
		out := fs.String("out", "Facts.lean", "Lean output")
		js := fs.String("json", "", "json output")
		_ = fs.Parse(os.Args[3:])
		f := facts.Extract(*repo)
		if err := facts.Write(f, *out, *js); err != nil {
			fmt.Fprintln(os.Stderr, err)
			os.Exit(2)
		}
		if len(f.Errors) > 0 {
			for _, e := range f.Errors {
				fmt.Println("FACT-MISSING:", e)
			}
			os.Exit(1)
		}
		return
	}
	if cmd == "child" {
		drive.ServeChild(prop, os.Stdin, os.Stdout)
		return
	}
	p, ok := drive.Registry[prop]
	if !ok {
		fmt.Fprintln(os.Stderr, "unknown property", prop)
		os.Exit(2)
	}
	switch cmd {
	case "run":
		fs := flag.NewFlagSet("vh", flag.ExitOnError)
		tier := fs.String("tier", "quick", "quick|thorough")
		seed := fs.Int64("seed", 1, "PRNG seed")
		out := fs.String("out", ".", "output directory")
		corpus := fs.String("corpus", "", "directory with *.trace corpus files to run first")
		_ = fs.Parse(os.Args[3:])
		t, err := trace.New(filepath.Join(*out, prop+".trace"))
		if err != nil {
			fmt.Fprintln(os.Stderr, err)
			os.Exit(2)
		}
		if *corpus != "" {
			files, _ := filepath.Glob(filepath.Join(*corpus, "*.trace"))
			for _, f := range files {
				for _, h := range readHistories(f) {
					t.Count("corpus_histories")
					drive.RunHistory(p, t, h)
				}
			}
		}
		c := &drive.Cfg{Tier: *tier, Seed: *seed, Rng: rand.New(rand.NewSource(*seed))}
		p.Gen(c, func(h []string) { drive.RunHistory(p, t, h) })
		if err := t.Close(c.Rule, c.Exhaustive, c.Extra, filepath.Join(*out, prop+".stats.json")); err != nil {
			fmt.Fprintln(os.Stderr, err)
			os.Exit(2)
		}
	case "replay":
		if len(os.Args) < 4 {
			fmt.Fprintln(os.Stderr, "usage: vh replay <property> <file>")
			os.Exit(2)
		}
		w := bufio.NewWriter(os.Stdout)
		defer w.Flush()
		for _, h := range readHistories(os.Args[3]) {
			ex := p.New()
			for _, op := range h {
				out, ok := drive.ExecTimed(ex, op)
				fmt.Fprintf(w, "%s => %s\n", op, trace.Enc(out))
				if !ok {
					fmt.Fprintf(w, "#!violation no_reply\tthe request never produced a reply: %s\n", op)
					break
				}
			}
			for _, f := range ex.Findings() {
				fmt.Fprintf(w, "#!violation %s\t%s\n", f[0], f[1])
			}
		}
	default:
		fmt.Fprintln(os.Stderr, "unknown command", cmd)
		os.Exit(2)
	}
}

// readHistories splits a file into histories at "reset" ops; comments and outputs are dropped.
func readHistories(path string) [][]string {
	f, err := os.Open(path)
	if err != nil {
		fmt.Fprintln(os.Stderr, err)
		os.Exit(2)
	}
	defer f.Close()
	var out [][]string
	var cur []string
	sc := bufio.NewScanner(f)
	sc.Buffer(make([]byte, 1<<20), 1<<26)
	for sc.Scan() {
		line := strings.TrimSpace(sc.Text())
		if line == "" || strings.HasPrefix(line, "#") {
			continue
		}
		if i := strings.Index(line, " => "); i >= 0 {
			line = line[:i]
		}
		if strings.HasPrefix(line, "reset") && len(cur) > 0 {
			out = append(out, cur)
			cur = nil
		}
		cur = append(cur, line)
	}
	if len(cur) > 0 {
		out = append(out, cur)
	}
	return out
}
