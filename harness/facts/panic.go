package facts

import (
	"fmt"
	"go/ast"
	"os"
	"path/filepath"
	"sort"
	"strings"
)

// libDirs are the library packages whose code runs inside the chaincode process.
var libDirs = []string{"core", "core/cachestub", "core/config", "core/balance", "core/ledger", "core/swap", "core/multiswap",
	"core/cctransfer", "core/helpers", "core/types", "core/types/big", "core/routing", "core/routing/reflect", "core/logger",
	"core/acl", "core/gost", "core/eth", "token", "keys", "keys/eth", "hlfcreator"}

// hasRecoverDefer reports the index of the first top-level `defer func() { … recover() … }()`
// statement of a body (-1 = none).
func recoverDeferIndex(body *ast.BlockStmt) int {
	if body == nil {
		return -1
	}
	for i, st := range body.List {
		d, ok := st.(*ast.DeferStmt)
		if !ok {
			continue
		}
		fl, ok := d.Call.Fun.(*ast.FuncLit)
		if !ok {
			continue
		}
		if containsCall(fl.Body, "recover") {
			return i
		}
	}
	return -1
}

func recvName(fd *ast.FuncDecl) string {
	if fd.Recv == nil || len(fd.Recv.List) != 1 {
		return ""
	}
	return exprName(fd.Recv.List[0].Type)
}

// extractPanicSkeleton (C14):
//   - goStmts: every `go` statement of the library, as "<file>:<enclosing func>:<1 if the started
//     function defers a recover else 0>"
//   - recoverFns: every library function with a top-level deferred recover, as "<pkg>.<recv>.<name>@<index
//     of the defer among the function's top-level statements>" (statements before it are not protected)
//   - exitCalls: calls that end the process on purpose (os.Exit, log.Fatal*, logger Fatal*)
//   - itemLoops: for the four item loops (batch transactions, batch swaps/keys, tasks) the callee that
//     handles one item — it must be one of recoverFns for "a panic fails only that item"
func extractPanicSkeleton(f *Facts) {
	var gos, recs, exits []string
	for _, dir := range libDirs {
		entries, err := os.ReadDir(filepath.Join(f.repo, dir))
		if err != nil {
			continue
		}
		for _, e := range entries {
			n := e.Name()
			if e.IsDir() || !strings.HasSuffix(n, ".go") || strings.HasSuffix(n, "_test.go") || n == "verif_export.go" {
				continue
			}
			rel := filepath.Join(dir, n)
			a := f.File(rel)
			if a == nil {
				continue
			}
			for _, d := range a.Decls {
				fd, ok := d.(*ast.FuncDecl)
				if !ok || fd.Body == nil {
					continue
				}
				name := fd.Name.Name
				if r := recvName(fd); r != "" {
					name = r + "." + name
				}
				if i := recoverDeferIndex(fd.Body); i >= 0 {
					recs = append(recs, fmt.Sprintf("%s.%s@%d", dir, name, i))
				}
				ast.Inspect(fd.Body, func(x ast.Node) bool {
					switch g := x.(type) {
					case *ast.GoStmt:
						rec := 0
						switch fn := g.Call.Fun.(type) {
						case *ast.FuncLit:
							if recoverDeferIndex(fn.Body) >= 0 {
								rec = 1
							}
						case *ast.Ident:
							for _, d2 := range a.Decls {
								if fd2, ok := d2.(*ast.FuncDecl); ok && fd2.Name.Name == fn.Name && recoverDeferIndex(fd2.Body) >= 0 {
									rec = 1
								}
							}
						}
						gos = append(gos, fmt.Sprintf("%s:%s:%d", rel, name, rec))
					case *ast.CallExpr:
						cn := exprName(g.Fun)
						if cn == "os.Exit" || strings.HasPrefix(cn, "log.Fatal") || strings.HasSuffix(cn, ".Fatal") || strings.HasSuffix(cn, ".Fatalf") {
							exits = append(exits, rel+":"+name+":"+cn)
						}
					}
					return true
				})
			}
		}
	}
	sort.Strings(gos)
	sort.Strings(recs)
	sort.Strings(exits)
	f.Lists["goStmts"] = gos
	var bare []string
	for _, g := range gos {
		if strings.HasSuffix(g, ":0") {
			bare = append(bare, g)
		}
	}
	f.Lists["goStmtsWithoutRecover"] = bare
	f.Lists["recoverFns"] = recs
	f.Lists["exitCalls"] = exits

	// item loops: which function is called per item
	var loops []string
	check := func(rel, recv, fn string, callees ...string) {
		fd := f.FuncDecl(rel, recv, fn)
		if fd == nil {
			return
		}
		for _, c := range callees {
			inLoop := false
			ast.Inspect(fd.Body, func(x ast.Node) bool {
				if r, ok := x.(*ast.RangeStmt); ok && containsCall(r.Body, c) {
					inLoop = true
				}
				return true
			})
			if inLoop {
				loops = append(loops, fn+">"+c)
			}
		}
	}
	check("core/cc_batch.go", "Chaincode", "batchExecute", "batchedTxExecute", "Answer", "RobotDone")
	check("core/task_executor.go", "TaskExecutor", "ExecuteTasks", "ExecuteTask")
	sort.Strings(loops)
	f.Lists["itemLoops"] = loops
}
