package facts

import (
	"go/ast"
	"go/parser"
	"go/token"
	"os"
	"path/filepath"
	"sort"
	"strconv"
	"strings"
)

// extractMore holds the structural extractors (dispatch skeleton, stub interface, …).
func extractMore(f *Facts) {
	extractInvokeSwitch(f)
	extractDisabledSites(f)
	extractQueryStub(f)
	extractStubInterface(f)
	extractProcess(f)
	extractPanicSkeleton(f)
	extractEnvFacts(f)
	extractConfigFacts(f)
}

// extractStubInterface parses shim.ChaincodeStubInterface from the module cache copy named in go.mod.
func extractStubInterface(f *Facts) {
	gomod, err := os.ReadFile(filepath.Join(f.repo, "go.mod"))
	if err != nil {
		f.fail("go.mod: %v", err)
		return
	}
	ver := ""
	for _, l := range strings.Split(string(gomod), "\n") {
		fs := strings.Fields(l)
		if len(fs) >= 2 && fs[0] == "github.com/hyperledger/fabric-chaincode-go" {
			ver = fs[1]
		}
	}
	cache := os.Getenv("GOMODCACHE")
	if cache == "" {
		home, _ := os.UserHomeDir()
		gp := os.Getenv("GOPATH")
		if gp == "" {
			gp = filepath.Join(home, "go")
		}
		cache = filepath.Join(gp, "pkg", "mod")
	}
	path := filepath.Join(cache, "github.com", "hyperledger", "fabric-chaincode-go@"+ver, "shim", "interfaces.go")
	a, err := parser.ParseFile(f.fset, path, nil, 0)
	if err != nil {
		f.fail("shim interfaces.go (%s): %v", path, err)
		return
	}
	var methods []string
	for _, d := range a.Decls {
		g, ok := d.(*ast.GenDecl)
		if !ok {
			continue
		}
		for _, s := range g.Specs {
			ts, ok := s.(*ast.TypeSpec)
			if !ok || ts.Name.Name != "ChaincodeStubInterface" {
				continue
			}
			it, ok := ts.Type.(*ast.InterfaceType)
			if !ok {
				continue
			}
			for _, m := range it.Methods.List {
				for _, n := range m.Names {
					methods = append(methods, n.Name)
				}
			}
		}
	}
	if len(methods) == 0 {
		f.fail("shim: ChaincodeStubInterface not found")
	}
	sort.Strings(methods)
	f.Lists["stubInterfaceMethods"] = methods
}

// stringConsts collects package-level string constants of a file.
func (f *Facts) stringConsts(rel string) map[string]string {
	out := map[string]string{}
	a := f.File(rel)
	if a == nil {
		return out
	}
	for _, d := range a.Decls {
		g, ok := d.(*ast.GenDecl)
		if !ok || g.Tok != token.CONST {
			continue
		}
		for _, s := range g.Specs {
			vs := s.(*ast.ValueSpec)
			for i, n := range vs.Names {
				if i < len(vs.Values) {
					if bl, ok := vs.Values[i].(*ast.BasicLit); ok && bl.Kind == token.STRING {
						if v, err := strconv.Unquote(bl.Value); err == nil {
							out[n.Name] = v
						}
					}
				}
			}
		}
	}
	return out
}

func containsCall(n ast.Node, name string) bool {
	found := false
	ast.Inspect(n, func(x ast.Node) bool {
		if c, ok := x.(*ast.CallExpr); ok {
			switch fn := c.Fun.(type) {
			case *ast.SelectorExpr:
				if fn.Sel.Name == name {
					found = true
				}
			case *ast.Ident:
				if fn.Name == name {
					found = true
				}
			}
		}
		return !found
	})
	return found
}

// reaches reports whether the code in n calls `name` directly or through functions and methods
// declared in the files of package core (followed up to `depth` levels; refactoring a check into a
// helper must not hide it).
func (f *Facts) reaches(n ast.Node, name string, depth int) bool {
	if containsCall(n, name) {
		return true
	}
	if depth == 0 {
		return false
	}
	for _, m := range calledMethods(n) {
		for _, fd := range f.coreFuncs()[m] {
			if fd.Body != nil && f.reaches(fd.Body, name, depth-1) {
				return true
			}
		}
	}
	return false
}

// coreFuncs indexes the function and method declarations of package core by name.
func (f *Facts) coreFuncs() map[string][]*ast.FuncDecl {
	if f.coreIdx != nil {
		return f.coreIdx
	}
	f.coreIdx = map[string][]*ast.FuncDecl{}
	entries, _ := os.ReadDir(filepath.Join(f.repo, "core"))
	for _, e := range entries {
		n := e.Name()
		if e.IsDir() || !strings.HasSuffix(n, ".go") || strings.HasSuffix(n, "_test.go") || n == "verif_export.go" {
			continue
		}
		if a := f.File(filepath.Join("core", n)); a != nil {
			for _, d := range a.Decls {
				if fd, ok := d.(*ast.FuncDecl); ok {
					f.coreIdx[fd.Name.Name] = append(f.coreIdx[fd.Name.Name], fd)
				}
			}
		}
	}
	return f.coreIdx
}

func calledMethods(n ast.Node) []string {
	var out []string
	ast.Inspect(n, func(x ast.Node) bool {
		if c, ok := x.(*ast.CallExpr); ok {
			if fn, ok := c.Fun.(*ast.SelectorExpr); ok {
				out = append(out, fn.Sel.Name)
			}
		}
		return true
	})
	return out
}

// extractInvokeSwitch reads the function-name switch of Chaincode.Invoke: cases in source order,
// which of them are guarded by ValidateSKI (directly or in the handler they call), and which end
// the invocation (return) rather than fall through to the method lookup.
func extractInvokeSwitch(f *Facts) {
	const rel = "core/cc_core_init_invoke.go"
	fd := f.FuncDecl(rel, "Chaincode", "Invoke")
	if fd == nil {
		return
	}
	consts := f.stringConsts("core/cc_core.go")
	var sw *ast.SwitchStmt
	ast.Inspect(fd.Body, func(n ast.Node) bool {
		if s, ok := n.(*ast.SwitchStmt); ok && sw == nil {
			if id, ok := s.Tag.(*ast.Ident); ok && id.Name == "function" {
				sw = s
			}
		}
		return sw == nil
	})
	if sw == nil {
		f.fail("%s: switch on `function` not found in Invoke", rel)
		return
	}
	var order, guarded, returning []string
	for _, st := range sw.Body.List {
		cc := st.(*ast.CaseClause)
		var names []string
		for _, e := range cc.List {
			id, ok := e.(*ast.Ident)
			if !ok {
				f.fail("%s: non-identifier case in Invoke switch", rel)
				continue
			}
			v, ok := consts[id.Name]
			if !ok {
				f.fail("%s: case %s is not a string constant of cc_core.go", rel, id.Name)
				continue
			}
			names = append(names, v)
		}
		body := &ast.BlockStmt{List: cc.Body}
		// guarded = the case (or a function of package core it calls, transitively) reaches ValidateSKI
		g := f.reaches(body, "ValidateSKI", 4)
		ret := false
		if len(cc.Body) > 0 {
			_, ret = cc.Body[len(cc.Body)-1].(*ast.ReturnStmt)
		}
		for _, n := range names {
			order = append(order, n)
			if g {
				guarded = append(guarded, n)
			}
			if ret {
				returning = append(returning, n)
			}
		}
	}
	// as sets: the order of independent case clauses is not a fact the model depends on
	sort.Strings(order)
	sort.Strings(guarded)
	sort.Strings(returning)
	f.Lists["invokeCaseOrder"] = order
	f.Lists["robotGuardedFns"] = guarded
	f.Lists["returningCases"] = returning
	// the method lookup and the disabled test come after the switch, before routing
	after := false
	seenDisabled, seenRoute := false, false
	for _, st := range fd.Body.List {
		if st == ast.Stmt(sw) {
			after = true
			continue
		}
		if !after {
			continue
		}
		if containsCall(st, "isMethodDisabled") && !seenRoute {
			seenDisabled = true
		}
		if containsCall(st, "noBatchHandler") || containsCall(st, "BatchHandler") {
			seenRoute = true
		}
	}
	if seenDisabled {
		f.Nats["invokeDisabledTestBeforeRouting"] = 1
	} else {
		f.Nats["invokeDisabledTestBeforeRouting"] = 0
	}
}

// extractDisabledSites lists the functions of package core that call isMethodDisabled on *Chaincode.
func extractDisabledSites(f *Facts) {
	var sites []string
	for _, rel := range []string{"core/cc_core_init_invoke.go", "core/task_executor.go", "core/cc_core.go", "core/cc_batch.go"} {
		a := f.File(rel)
		if a == nil {
			continue
		}
		for _, d := range a.Decls {
			if fd, ok := d.(*ast.FuncDecl); ok && fd.Body != nil && fd.Name.Name != "isMethodDisabled" && containsCall(fd.Body, "isMethodDisabled") {
				sites = append(sites, fd.Name.Name)
			}
		}
	}
	sort.Strings(sites)
	f.Lists["disabledTestSites"] = sites
}

// extractQueryStub lists the methods queryStub overrides and the methods of the shim stub
// interface (from the module cache copy the repository builds against).
func extractQueryStub(f *Facts) {
	a := f.File("core/query_stub.go")
	if a == nil {
		return
	}
	var over []string
	for _, d := range a.Decls {
		if fd, ok := d.(*ast.FuncDecl); ok && fd.Recv != nil && len(fd.Recv.List) == 1 {
			t := fd.Recv.List[0].Type
			if st, ok := t.(*ast.StarExpr); ok {
				t = st.X
			}
			if id, ok := t.(*ast.Ident); ok && id.Name == "queryStub" {
				// an override is inert iff its body is a single `return nil`
				inert := false
				if len(fd.Body.List) == 1 {
					if r, ok := fd.Body.List[0].(*ast.ReturnStmt); ok && len(r.Results) == 1 {
						if id, ok := r.Results[0].(*ast.Ident); ok && id.Name == "nil" {
							inert = true
						}
					}
				}
				if inert {
					over = append(over, fd.Name.Name)
				} else {
					f.fail("core/query_stub.go: override %s is not a bare `return nil`", fd.Name.Name)
				}
			}
		}
	}
	sort.Strings(over)
	f.Lists["queryStubInertOverrides"] = over
	// where is queryStub installed?
	var wrapSites []string
	for _, rel := range []string{"core/cc_core.go", "core/task_executor.go", "core/cc_batch.go", "core/cc_core_init_invoke.go"} {
		if b := f.File(rel); b != nil {
			for _, d := range b.Decls {
				if fd, ok := d.(*ast.FuncDecl); ok && fd.Body != nil && containsCall(fd.Body, "newQueryStub") {
					wrapSites = append(wrapSites, fd.Name.Name)
				}
			}
		}
	}
	sort.Strings(wrapSites)
	f.Lists["queryStubWrapSites"] = wrapSites
	// in noBatchHandler the wrap must come before the authentication (fix 3beb404)
	f.Nats["noBatchWrapBeforeAuth"] = 0
	if fd := f.FuncDecl("core/cc_core.go", "Chaincode", "noBatchHandler"); fd != nil {
		wrapAt, authAt := -1, -1
		for i, st := range fd.Body.List {
			if wrapAt < 0 && containsCall(st, "newQueryStub") {
				wrapAt = i
			}
			if authAt < 0 && containsCall(st, "validateAndExtractInvocationContext") {
				authAt = i
			}
		}
		if wrapAt >= 0 && authAt >= 0 && wrapAt < authAt {
			f.Nats["noBatchWrapBeforeAuth"] = 1
		}
	}
	_ = strings.Join
}
