package facts

// extractMore holds the structural extractors (dispatch skeleton, panic skeleton, stub interface…).
func extractMore(f *Facts) {}
