package facts

import (
	"go/ast"
	"go/token"
	"os"
	"path/filepath"
	"sort"
	"strings"
)

// extractProcess gathers the facts about state that survives an invocation inside the chaincode
// process (C07, C17):
//   - tokenCfgEvents: for every method of *BaseToken that touches the in-memory metadata object
//     `bt.config`, the source-order sequence of L (loadConfigUnlessLoaded call), U (use of
//     bt.config) and S (saveConfig call), flattened as "fn", <name>, <event>…
//   - tokenLoadFresh: 1 iff loadConfigUnlessLoaded assigns a fresh &proto.Token{} to bt.config
//     unconditionally (before any `return nil`)
//   - invokeConfiguresFirst: 1 iff Chaincode.Invoke calls config.Load and config.Configure before
//     the function-name switch
//   - configureAssigns: the Apply* methods Configure calls unconditionally, in order
//   - persistentFields: "<Struct>.<field>" for the long-lived objects
//   - packageVars: package-level variables of the library packages (excluding blank and error values)
func extractProcess(f *Facts) {
	// ---- events over bt.config
	files, _ := filepath.Glob(filepath.Join(f.repo, "token", "*.go"))
	sort.Strings(files)
	// raw event sequences per method, with "C:<name>" where another method of the same receiver is called
	raw := map[string][]string{}
	var order []string
	for _, p := range files {
		if strings.HasSuffix(p, "_test.go") {
			continue
		}
		rel, _ := filepath.Rel(f.repo, p)
		a := f.File(rel)
		if a == nil {
			continue
		}
		for _, d := range a.Decls {
			fd, ok := d.(*ast.FuncDecl)
			if !ok || fd.Body == nil || fd.Recv == nil || len(fd.Recv.List) != 1 || len(fd.Recv.List[0].Names) != 1 {
				continue
			}
			recv := fd.Recv.List[0].Names[0].Name
			if fd.Name.Name == "loadConfigUnlessLoaded" || fd.Name.Name == "saveConfig" {
				continue
			}
			var seq []string
			ast.Inspect(fd.Body, func(n ast.Node) bool {
				switch x := n.(type) {
				case *ast.CallExpr:
					if se, ok := x.Fun.(*ast.SelectorExpr); ok {
						if id, ok := se.X.(*ast.Ident); ok && id.Name == recv {
							switch se.Sel.Name {
							case "loadConfigUnlessLoaded":
								seq = append(seq, "L")
								return false
							case "saveConfig":
								seq = append(seq, "S")
								return false
							default:
								// arguments first (they are evaluated before the call), then the callee
								for _, arg := range x.Args {
									ast.Inspect(arg, func(m ast.Node) bool {
										if sx, ok := m.(*ast.SelectorExpr); ok {
											if id2, ok := sx.X.(*ast.Ident); ok && id2.Name == recv && sx.Sel.Name == "config" {
												seq = append(seq, "U")
											}
										}
										return true
									})
								}
								seq = append(seq, "C:"+se.Sel.Name)
								return false
							}
						}
					}
				case *ast.SelectorExpr:
					if id, ok := x.X.(*ast.Ident); ok && id.Name == recv && x.Sel.Name == "config" {
						seq = append(seq, "U")
					}
				}
				return true
			})
			raw[fd.Name.Name] = seq
			order = append(order, fd.Name.Name)
		}
	}
	// a helper that uses the object its caller has loaded is part of its callers: calls are inlined
	var expand func(name string, depth int) []string
	expand = func(name string, depth int) []string {
		var out []string
		for _, e := range raw[name] {
			if strings.HasPrefix(e, "C:") {
				if depth > 0 {
					out = append(out, expand(e[2:], depth-1)...)
				}
				continue
			}
			out = append(out, e)
		}
		return out
	}
	called := map[string]bool{}
	for _, seq := range raw {
		for _, e := range seq {
			if strings.HasPrefix(e, "C:") {
				called[e[2:]] = true
			}
		}
	}
	var ev []string
	for _, name := range order {
		// entry points: exported methods, and unexported ones nobody in the package calls
		if !ast.IsExported(name) && called[name] {
			continue
		}
		if seq := expand(name, 5); len(seq) > 0 {
			ev = append(ev, "fn", name)
			ev = append(ev, seq...)
		}
	}
	if len(ev) == 0 {
		f.fail("token/*.go: no method of BaseToken touching bt.config found")
	}
	f.Lists["tokenCfgEvents"] = ev

	// ---- loadConfigUnlessLoaded assigns a fresh object unconditionally
	f.Nats["tokenLoadFresh"] = 0
	if fd := f.FuncDecl("token/token.go", "BaseToken", "loadConfigUnlessLoaded"); fd != nil {
		ok := false
		for _, st := range fd.Body.List {
			if as, isAs := st.(*ast.AssignStmt); isAs && as.Tok == token.ASSIGN && len(as.Lhs) == 1 && len(as.Rhs) == 1 {
				if se, isSe := as.Lhs[0].(*ast.SelectorExpr); isSe && se.Sel.Name == "config" {
					if ue, isUe := as.Rhs[0].(*ast.UnaryExpr); isUe && ue.Op == token.AND {
						if cl, isCl := ue.X.(*ast.CompositeLit); isCl && len(cl.Elts) == 0 {
							ok = true
							break
						}
					}
				}
			}
			// any `return nil` (or any use of the old object) before the assignment spoils it
			bad := false
			ast.Inspect(st, func(n ast.Node) bool {
				if r, isR := n.(*ast.ReturnStmt); isR && len(r.Results) == 1 {
					if id, isId := r.Results[0].(*ast.Ident); isId && id.Name == "nil" {
						bad = true
					}
				}
				if se, isSe := n.(*ast.SelectorExpr); isSe && se.Sel.Name == "config" {
					bad = true
				}
				return true
			})
			if bad {
				break
			}
		}
		if ok {
			f.Nats["tokenLoadFresh"] = 1
		}
	}

	// ---- Invoke: Load + Configure before the switch
	f.Nats["invokeConfiguresFirst"] = 0
	if fd := f.FuncDecl("core/cc_core_init_invoke.go", "Chaincode", "Invoke"); fd != nil {
		loadAt, confAt, swAt := -1, -1, -1
		for i, st := range fd.Body.List {
			if loadAt < 0 && containsCall(st, "Load") {
				loadAt = i
			}
			if confAt < 0 && containsCall(st, "Configure") {
				confAt = i
			}
			if _, isSw := st.(*ast.SwitchStmt); isSw && swAt < 0 {
				swAt = i
			}
		}
		if loadAt >= 0 && confAt > loadAt && swAt > confAt {
			f.Nats["invokeConfiguresFirst"] = 1
		}
	}
	// ---- Configure applies every layer unconditionally (only the interface type tests guard them)
	var applies []string
	if fd := f.FuncDecl("core/config/configure.go", "", "Configure"); fd != nil {
		ast.Inspect(fd.Body, func(n ast.Node) bool {
			if c, ok := n.(*ast.CallExpr); ok {
				if se, ok := c.Fun.(*ast.SelectorExpr); ok && strings.HasPrefix(se.Sel.Name, "Apply") {
					applies = append(applies, se.Sel.Name)
				}
			}
			return true
		})
	}
	f.Lists["configureApplies"] = applies
	// each Apply* setter of the library is a plain assignment of its argument
	var setters []string
	for _, spec := range [][3]string{{"core/bc_contract.go", "BaseContract", "ApplyContractConfig"}, {"token/token.go", "BaseToken", "ApplyTokenConfig"}} {
		if fd := f.FuncDecl(spec[0], spec[1], spec[2]); fd != nil {
			plain := false
			if len(fd.Body.List) == 2 {
				if as, ok := fd.Body.List[0].(*ast.AssignStmt); ok && len(as.Rhs) == 1 {
					if id, ok := as.Rhs[0].(*ast.Ident); ok && len(fd.Type.Params.List) == 1 && len(fd.Type.Params.List[0].Names) == 1 && id.Name == fd.Type.Params.List[0].Names[0].Name {
						plain = true
					}
				}
			}
			if plain {
				setters = append(setters, spec[2])
			}
		}
	}
	f.Lists["plainConfigSetters"] = setters

	// ---- persistent fields
	var fields []string
	for _, spec := range [][2]string{{"core/cc_core.go", "Chaincode"}, {"core/bc_contract.go", "BaseContract"}, {"token/token.go", "BaseToken"},
		{"core/cachestub/batch_cache_stub.go", "BatchCacheStub"}, {"core/cachestub/tx_cache_stub.go", "TxCacheStub"}} {
		a := f.File(spec[0])
		if a == nil {
			continue
		}
		found := false
		for _, d := range a.Decls {
			g, ok := d.(*ast.GenDecl)
			if !ok || g.Tok != token.TYPE {
				continue
			}
			for _, s := range g.Specs {
				ts := s.(*ast.TypeSpec)
				st, ok := ts.Type.(*ast.StructType)
				if !ok || ts.Name.Name != spec[1] {
					continue
				}
				found = true
				for _, fl := range st.Fields.List {
					if len(fl.Names) == 0 {
						fields = append(fields, spec[1]+"."+exprName(fl.Type))
					}
					for _, n := range fl.Names {
						fields = append(fields, spec[1]+"."+n.Name)
					}
				}
			}
		}
		if !found {
			f.fail("%s: struct %s not found", spec[0], spec[1])
		}
	}
	f.Lists["persistentFields"] = fields

	// ---- package-level variables of the library packages (mutable globals would be process history)
	var vars []string
	varDirs := []string{"core", "core/cachestub", "core/config", "core/balance", "core/ledger", "core/swap", "core/multiswap", "core/cctransfer", "core/helpers", "core/types", "core/types/big", "core/routing/reflect", "core/logger", "token", "keys", "hlfcreator"}
	for _, dir := range varDirs {
		entries, err := os.ReadDir(filepath.Join(f.repo, dir))
		if err != nil {
			continue
		}
		for _, e := range entries {
			n := e.Name()
			if e.IsDir() || !strings.HasSuffix(n, ".go") || strings.HasSuffix(n, "_test.go") || n == "verif_export.go" {
				continue
			}
			a := f.File(filepath.Join(dir, n))
			if a == nil {
				continue
			}
			for _, d := range a.Decls {
				g, ok := d.(*ast.GenDecl)
				if !ok || g.Tok != token.VAR {
					continue
				}
				for _, s := range g.Specs {
					vs := s.(*ast.ValueSpec)
					for i, nm := range vs.Names {
						if nm.Name == "_" {
							continue
						}
						// immutable by construction: error values and compiled patterns
						if i < len(vs.Values) {
							if c, ok := vs.Values[i].(*ast.CallExpr); ok {
								fn := exprName(c.Fun)
								if fn == "errors.New" || fn == "fmt.Errorf" || fn == "regexp.MustCompile" {
									continue
								}
							}
						}
						vars = append(vars, dir+"."+nm.Name)
					}
				}
			}
		}
	}
	sort.Strings(vars)
	f.Lists["packageVars"] = vars
	// ... and those of them that the package ever writes after their declaration: assigned,
	// incremented, address taken, or used as the receiver of a method that is not a plain reader.
	// Only these can carry state from one invocation to the next.
	written := map[string]bool{}
	readers := map[string]bool{"Cmp": true, "Sign": true, "String": true, "Bytes": true, "Int64": true, "Uint64": true,
		"IsInt64": true, "IsUint64": true, "BitLen": true, "Text": true, "Error": true, "MatchString": true, "Match": true,
		"FindStringSubmatch": true, "Len": true}
	for _, dir := range varDirs {
		names := map[string]bool{}
		for _, v := range vars {
			if strings.HasPrefix(v, dir+".") && !strings.Contains(v[len(dir)+1:], ".") {
				names[v[len(dir)+1:]] = true
			}
		}
		if len(names) == 0 {
			continue
		}
		root := func(e ast.Expr) string {
			for {
				switch x := e.(type) {
				case *ast.Ident:
					return x.Name
				case *ast.SelectorExpr:
					e = x.X
				case *ast.IndexExpr:
					e = x.X
				case *ast.StarExpr:
					e = x.X
				case *ast.ParenExpr:
					e = x.X
				default:
					return ""
				}
			}
		}
		entries, _ := os.ReadDir(filepath.Join(f.repo, dir))
		for _, e := range entries {
			n := e.Name()
			if e.IsDir() || !strings.HasSuffix(n, ".go") || strings.HasSuffix(n, "_test.go") || n == "verif_export.go" {
				continue
			}
			a := f.File(filepath.Join(dir, n))
			if a == nil {
				continue
			}
			for _, d := range a.Decls {
				fd, ok := d.(*ast.FuncDecl)
				if !ok || fd.Body == nil {
					continue
				}
				ast.Inspect(fd.Body, func(x ast.Node) bool {
					switch y := x.(type) {
					case *ast.AssignStmt:
						if y.Tok != token.DEFINE {
							for _, l := range y.Lhs {
								if r := root(l); names[r] {
									written[dir+"."+r] = true
								}
							}
						}
					case *ast.IncDecStmt:
						if r := root(y.X); names[r] {
							written[dir+"."+r] = true
						}
					case *ast.UnaryExpr:
						if y.Op == token.AND {
							if r := root(y.X); names[r] {
								written[dir+"."+r] = true
							}
						}
					case *ast.CallExpr:
						if se, ok := y.Fun.(*ast.SelectorExpr); ok {
							if id, ok := se.X.(*ast.Ident); ok && names[id.Name] && !readers[se.Sel.Name] {
								written[dir+"."+id.Name] = true
							}
						}
					}
					return true
				})
			}
		}
	}
	var wr []string
	for v := range written {
		wr = append(wr, v)
	}
	sort.Strings(wr)
	f.Lists["packageVarsWritten"] = wr
}

func exprName(e ast.Expr) string {
	switch x := e.(type) {
	case *ast.Ident:
		return x.Name
	case *ast.SelectorExpr:
		return exprName(x.X) + "." + x.Sel.Name
	case *ast.StarExpr:
		return exprName(x.X)
	}
	return "?"
}

// extractEnvFacts (C17): the context table is keyed by goid() in all three accessors, GetStub reads
// it, and the context is installed (with a deferred removal) at the known sites.
func extractEnvFacts(f *Facts) {
	var keyed []string
	for _, spec := range [][2]string{{"setEnv", "Store"}, {"getEnv", "Load"}, {"delEnv", "Delete"}} {
		fd := f.FuncDecl("core/bc_contract.go", "BaseContract", spec[0])
		if fd == nil {
			continue
		}
		ok := false
		ast.Inspect(fd.Body, func(n ast.Node) bool {
			c, isC := n.(*ast.CallExpr)
			if !isC {
				return true
			}
			se, isSe := c.Fun.(*ast.SelectorExpr)
			if !isSe || se.Sel.Name != spec[1] || exprName(se.X) != "bc.envs" || len(c.Args) == 0 {
				return true
			}
			if k, isK := c.Args[0].(*ast.CallExpr); isK && exprName(k.Fun) == "goid" && len(k.Args) == 0 {
				ok = true
			}
			return true
		})
		if ok {
			keyed = append(keyed, spec[0]+":"+spec[1])
		}
	}
	sort.Strings(keyed)
	f.Lists["envKeyedByGoid"] = keyed
	// goid itself must read the goroutine id from runtime.Stack
	if fd := f.FuncDecl("core/bc_contract.go", "", "goid"); fd == nil || !containsCall(fd.Body, "Stack") {
		f.fail("core/bc_contract.go: goid() does not read runtime.Stack")
	}
	f.Nats["getStubReadsEnv"] = 0
	if fd := f.FuncDecl("core/bc_contract.go", "BaseContract", "GetStub"); fd != nil && containsCall(fd.Body, "getEnv") {
		f.Nats["getStubReadsEnv"] = 1
	}
	// install sites: functions calling setEnv, with the number of setEnv calls; each must be followed
	// by a deferred delEnv
	var sites []string
	for _, rel := range []string{"core/cc_core_init_invoke.go", "core/cc_invoke_router.go", "core/cc_core.go", "core/cc_batch.go", "core/task_executor.go", "core/cc_swap.go", "core/cc_multiswap.go"} {
		if _, err := os.Stat(filepath.Join(f.repo, rel)); err != nil {
			continue
		}
		a := f.File(rel)
		if a == nil {
			continue
		}
		for _, d := range a.Decls {
			fd, ok := d.(*ast.FuncDecl)
			if !ok || fd.Body == nil {
				continue
			}
			sets, defers := 0, 0
			ast.Inspect(fd.Body, func(n ast.Node) bool {
				switch x := n.(type) {
				case *ast.DeferStmt:
					if se, ok := x.Call.Fun.(*ast.SelectorExpr); ok && se.Sel.Name == "delEnv" {
						defers++
					}
				case *ast.CallExpr:
					if se, ok := x.Fun.(*ast.SelectorExpr); ok && se.Sel.Name == "setEnv" {
						sets++
					}
				}
				return true
			})
			if sets > 0 {
				if sets != defers {
					f.fail("%s: %s installs a context %d times but defers its removal %d times", rel, fd.Name.Name, sets, defers)
				}
				sites = append(sites, fd.Name.Name) // (how many cases of the function install one is not a fact the model uses)
			}
		}
	}
	sort.Strings(sites)
	f.Lists["envInstallSites"] = sites
}
