package facts

import (
	"go/ast"
	"go/token"
	"sort"
	"strconv"
	"strings"
)

// extractConfigFacts (C18): the three patterns of the generated validators, the legacy
// channel → positional-mapper table, the order of the steps of Init, the validator chain, and the
// two "required" tests.
func extractConfigFacts(f *Facts) {
	const pv = "proto/foundation_config.pb.validate.go"
	if a := f.File(pv); a != nil {
		pats := map[string]string{}
		for _, d := range a.Decls {
			g, ok := d.(*ast.GenDecl)
			if !ok || g.Tok != token.VAR {
				continue
			}
			for _, s := range g.Specs {
				vs := s.(*ast.ValueSpec)
				for i, n := range vs.Names {
					if i >= len(vs.Values) || !strings.HasSuffix(n.Name, "_Pattern") {
						continue
					}
					if c, ok := vs.Values[i].(*ast.CallExpr); ok && exprName(c.Fun) == "regexp.MustCompile" && len(c.Args) == 1 {
						if bl, ok := c.Args[0].(*ast.BasicLit); ok {
							if v, err := strconv.Unquote(bl.Value); err == nil {
								pats[n.Name] = v
							}
						}
					}
				}
			}
		}
		var names []string
		for k := range pats {
			names = append(names, k)
		}
		sort.Strings(names)
		var out []string
		for _, k := range names {
			out = append(out, k+"="+pats[k])
		}
		f.Lists["configPatterns"] = out
		// where the patterns are applied
		var uses []string
		for _, d := range a.Decls {
			fd, ok := d.(*ast.FuncDecl)
			if !ok || fd.Body == nil || fd.Name.Name != "validate" {
				continue
			}
			ast.Inspect(fd.Body, func(n ast.Node) bool {
				if c, ok := n.(*ast.CallExpr); ok {
					if se, ok := c.Fun.(*ast.SelectorExpr); ok && se.Sel.Name == "MatchString" && len(c.Args) == 1 {
						uses = append(uses, recvName(fd)+":"+exprName(se.X)+":"+exprName(c.Args[0].(*ast.CallExpr).Fun))
					}
				}
				return true
			})
		}
		sort.Strings(uses)
		f.Lists["configPatternUses"] = uses
		// "value is required" tests: m.GetX() == nil inside validate
		var req []string
		for _, d := range a.Decls {
			fd, ok := d.(*ast.FuncDecl)
			if !ok || fd.Body == nil || fd.Name.Name != "validate" {
				continue
			}
			for _, st := range fd.Body.List {
				is, ok := st.(*ast.IfStmt)
				if !ok {
					continue
				}
				if be, ok := is.Cond.(*ast.BinaryExpr); ok && be.Op == token.EQL && exprName(be.Y) == "nil" {
					if c, ok := be.X.(*ast.CallExpr); ok {
						req = append(req, recvName(fd)+"."+strings.TrimPrefix(exprName(c.Fun), "m."))
					}
				}
			}
		}
		sort.Strings(req)
		f.Lists["configRequired"] = req
	}
	// legacy table
	if fd := f.FuncDecl("core/config/from_args.go", "", "FromInitArgs"); fd != nil {
		var table []string
		ast.Inspect(fd.Body, func(n ast.Node) bool {
			sw, ok := n.(*ast.SwitchStmt)
			if !ok {
				return true
			}
			for _, st := range sw.Body.List {
				cc := st.(*ast.CaseClause)
				callee := ""
				ast.Inspect(&ast.BlockStmt{List: cc.Body}, func(x ast.Node) bool {
					if c, ok := x.(*ast.CallExpr); ok && strings.HasPrefix(exprName(c.Fun), "FromArgs") {
						callee = exprName(c.Fun)
					}
					return true
				})
				for _, e := range cc.List {
					if bl, ok := e.(*ast.BasicLit); ok {
						if v, err := strconv.Unquote(bl.Value); err == nil {
							table = append(table, v+">"+callee)
						}
					}
				}
			}
			return false
		})
		sort.Strings(table)
		var chs, ms []string
		for _, e := range table {
			p := strings.SplitN(e, ">", 2)
			chs = append(chs, p[0])
			ms = append(ms, p[1])
		}
		f.Lists["legacyChannels"] = chs
		f.Lists["legacyMappers"] = ms
	}
	// order of the steps of Init
	if fd := f.FuncDecl("core/cc_core_init_invoke.go", "Chaincode", "Init"); fd != nil {
		want := map[string]bool{"GetCreator": true, "ValidateAdminCreator": true, "IsJSON": true, "MapConfig": true, "FromInitArgs": true, "Validate": true, "Save": true}
		var order []string
		ast.Inspect(fd.Body, func(n ast.Node) bool {
			if c, ok := n.(*ast.CallExpr); ok {
				name := exprName(c.Fun)
				if i := strings.LastIndexByte(name, '.'); i >= 0 {
					name = name[i+1:]
				}
				if want[name] {
					order = append(order, name)
				}
			}
			return true
		})
		f.Lists["initCallOrder"] = order
	}
	if fd := f.FuncDecl("core/config/configure.go", "", "Validate"); fd != nil {
		var chain []string
		ast.Inspect(fd.Body, func(n ast.Node) bool {
			if c, ok := n.(*ast.CallExpr); ok {
				if se, ok := c.Fun.(*ast.SelectorExpr); ok && strings.HasPrefix(se.Sel.Name, "Validate") {
					chain = append(chain, se.Sel.Name)
				}
			}
			return true
		})
		f.Lists["validateChain"] = chain
	}
	f.Nats["baseValidateRequiresContract"] = 0
	if fd := f.FuncDecl("core/bc_contract.go", "BaseContract", "ValidateConfig"); fd != nil {
		ast.Inspect(fd.Body, func(n ast.Node) bool {
			if be, ok := n.(*ast.BinaryExpr); ok && be.Op == token.EQL && exprName(be.Y) == "nil" {
				if c, ok := be.X.(*ast.CallExpr); ok && strings.HasSuffix(exprName(c.Fun), "GetContract") {
					f.Nats["baseValidateRequiresContract"] = 1
				}
			}
			return true
		})
		if !containsCall(fd.Body, "ValidateAll") || !containsCall(fd.Body, "Unmarshal") {
			f.Nats["baseValidateRequiresContract"] = 0
		}
	}
	f.Nats["tokenValidateWholeConfig"] = 0
	if fd := f.FuncDecl("token/token.go", "BaseToken", "ValidateTokenConfig"); fd != nil && containsCall(fd.Body, "Unmarshal") && containsCall(fd.Body, "Validate") {
		f.Nats["tokenValidateWholeConfig"] = 1
	}
}
