module verifharness

go 1.18

require (
	github.com/anoideaopen/foundation v0.0.0
	github.com/btcsuite/btcutil v1.0.2
	github.com/golang/protobuf v1.5.4
	github.com/hyperledger/fabric-chaincode-go v0.0.0-20230228194215-b84622ba6a7a
	github.com/hyperledger/fabric-protos-go v0.3.0
	github.com/op/go-logging v0.0.0-20160315200505-970db520ece7
	github.com/sirupsen/logrus v1.8.1
	golang.org/x/crypto v0.23.0
	google.golang.org/protobuf v1.33.0
)

require (
	github.com/cenkalti/backoff/v4 v4.2.1 // indirect
	github.com/ddulesov/gogost v1.0.0 // indirect
	github.com/envoyproxy/protoc-gen-validate v1.0.4 // indirect
	github.com/ethereum/go-ethereum v1.11.6 // indirect
	github.com/go-logr/logr v1.4.1 // indirect
	github.com/go-logr/stdr v1.2.2 // indirect
	github.com/grpc-ecosystem/grpc-gateway/v2 v2.16.0 // indirect
	github.com/holiman/uint256 v1.2.4 // indirect
	go.opentelemetry.io/otel v1.15.0-rc.1 // indirect
	go.opentelemetry.io/otel/exporters/otlp/internal/retry v1.15.0-rc.1 // indirect
	go.opentelemetry.io/otel/exporters/otlp/otlptrace v1.15.0-rc.1 // indirect
	go.opentelemetry.io/otel/exporters/otlp/otlptrace/otlptracehttp v1.15.0-rc.1 // indirect
	go.opentelemetry.io/otel/metric v1.15.0-rc.1 // indirect
	go.opentelemetry.io/otel/sdk v1.15.0-rc.1 // indirect
	go.opentelemetry.io/otel/trace v1.15.0-rc.1 // indirect
	go.opentelemetry.io/proto/otlp v1.0.0 // indirect
	golang.org/x/net v0.23.0 // indirect
	golang.org/x/sys v0.20.0 // indirect
	golang.org/x/text v0.15.0 // indirect
	google.golang.org/genproto/googleapis/api v0.0.0-20230530153820-e85fd2cbaebc // indirect
	google.golang.org/genproto/googleapis/rpc v0.0.0-20240318140521-94a12d6c2237 // indirect
	google.golang.org/grpc v1.57.2 // indirect
)

replace github.com/anoideaopen/foundation => /repo
