// Package contracts holds the test chaincode the harness deploys on the simulated peer: a token
// built on token.BaseToken (so every library method is routed exactly as for a real token)
// plus scripted bodies whose steps are chosen by the harness.
package contracts

import (
	"errors"
	"fmt"
	"strconv"
	"strings"

	"github.com/anoideaopen/foundation/core"
	"github.com/anoideaopen/foundation/core/types"
	"github.com/anoideaopen/foundation/core/types/big"
	pb "github.com/anoideaopen/foundation/proto"
	"github.com/anoideaopen/foundation/token"
)

// VT is the harness token.
type VT struct {
	token.BaseToken
	// Hook, when set, is called by scripted bodies immediately before every GetStub() (C17).
	Hook func(tag string)
}

// VT is also an external configurator (like the industrial token, which is both a token and an
// externally configured contract): it accepts any external configuration and applies nothing. What
// matters is that a contract implementing BOTH interfaces has BOTH sections validated.
func (t *VT) ValidateExtConfig(_ []byte) error { return nil }

// ApplyExtConfig: nothing to apply.
func (t *VT) ApplyExtConfig(_ []byte) error { return nil }

func (t *VT) hook(tag string) {
	if t.Hook != nil {
		t.Hook(tag)
	}
}

// TxEmit emits tokens (issuer only).
func (t *VT) TxEmit(sender *types.Sender, address *types.Address, amount *big.Int) error {
	if !sender.Equal(t.Issuer()) {
		return errors.New("unauthorized")
	}
	if amount.Cmp(big.NewInt(0)) == 0 {
		return errors.New("amount should be more than zero")
	}
	if err := t.TokenBalanceAdd(address, amount, "txEmit"); err != nil {
		return err
	}
	return t.EmissionAdd(amount)
}

// TxBurn burns tokens of the issuer's choice of address (issuer only).
func (t *VT) TxBurn(sender *types.Sender, address *types.Address, amount *big.Int) error {
	if !sender.Equal(t.Issuer()) {
		return errors.New("unauthorized")
	}
	if err := t.TokenBalanceSub(address, amount, "txBurn"); err != nil {
		return err
	}
	return t.EmissionSub(amount)
}

// TxEmitIndustrial emits a grouped token.
func (t *VT) TxEmitIndustrial(sender *types.Sender, address *types.Address, amount *big.Int, group string) error {
	if !sender.Equal(t.Issuer()) {
		return errors.New("unauthorized")
	}
	return t.IndustrialBalanceAdd(group, address, amount, "txEmitIndustrial")
}

// TxEmitAllowed credits an allowed balance (issuer only) – stands for a completed inbound transfer.
func (t *VT) TxEmitAllowed(sender *types.Sender, address *types.Address, tok string, amount *big.Int) error {
	if !sender.Equal(t.Issuer()) {
		return errors.New("unauthorized")
	}
	return t.AllowedBalanceAdd(tok, address, amount, "txEmitAllowed")
}

// QueryIndustrialBalanceOf lists grouped balances.
func (t *VT) QueryIndustrialBalanceOf(address *types.Address) (map[string]string, error) {
	return t.IndustrialBalanceGet(address)
}

// ---- scripted bodies ------------------------------------------------------------------------
// script = steps separated by ';'. step = op[:a[:b[:c]]]
//   put:k:v  del:k  get:k  evt:name:val  fail  panic
//   add:addr:amt (token balance add)  sub:addr:amt  mv:from:to:amt
//   vp:k:v (SetStateValidationParameter)  pput:c:k:v pdel:c:k ppurge:c:k pvp:c:k:v (private data)
// The result is the '|'-joined list of values read by get steps (hex).

func (t *VT) run(script string) (string, error) {
	var reads []string
	if script == "" {
		return "", nil
	}
	for i, step := range strings.Split(script, ";") {
		p := strings.Split(step, ":")
		arg := func(n int) string {
			if n < len(p) {
				return p[n]
			}
			return ""
		}
		t.hook(fmt.Sprintf("%d:%s", i, step))
		stub := t.GetStub()
		var err error
		switch p[0] {
		case "put":
			err = stub.PutState(arg(1), []byte(arg(2)))
		case "del":
			err = stub.DelState(arg(1))
		case "get":
			var v []byte
			v, err = stub.GetState(arg(1))
			reads = append(reads, fmt.Sprintf("%x", v))
		case "sym":
			// the configuration in force for this invocation (reported like a value read)
			reads = append(reads, fmt.Sprintf("%x", []byte(t.ContractConfig().GetSymbol())))
		case "id":
			// the transaction the context belongs to (reported like a value read)
			reads = append(reads, fmt.Sprintf("%x", []byte(stub.GetTxID())))
		case "evt":
			err = stub.SetEvent(arg(1), []byte(arg(2)))
		case "vp":
			err = stub.SetStateValidationParameter(arg(1), []byte(arg(2)))
		case "pput":
			err = stub.PutPrivateData(arg(1), arg(2), []byte(arg(3)))
		case "pdel":
			err = stub.DelPrivateData(arg(1), arg(2))
		case "ppurge":
			err = stub.PurgePrivateData(arg(1), arg(2))
		case "pvp":
			err = stub.SetPrivateDataValidationParameter(arg(1), arg(2), []byte(arg(3)))
		case "fail":
			return "", errors.New("scripted failure")
		case "failx":
			// an error whose text is not valid UTF-8 (e.g. raw address bytes printed into a message)
			return "", errors.New("scripted failure \xff\xfe\x80 with raw bytes")
		case "faill":
			// a long error text of multi-byte characters (an echoed argument, say): faill:<n> = n characters
			// of two bytes each after <n mod 3> one-byte characters, so that any byte offset falls inside a
			// character for some n
			n, _ := strconv.Atoi(arg(1))
			return "", errors.New("scripted failure " + strings.Repeat("x", n%3) + strings.Repeat("é", n))
		case "panic":
			panic("scripted panic")
		case "add", "sub":
			addr, e := types.AddrFromBase58Check(arg(1))
			if e != nil {
				return "", e
			}
			amt, ok := new(big.Int).SetString(arg(2), 10)
			if !ok {
				return "", errors.New("bad amount")
			}
			if p[0] == "add" {
				err = t.TokenBalanceAdd(addr, amt, "script")
			} else {
				err = t.TokenBalanceSub(addr, amt, "script")
			}
		case "mv":
			from, e := types.AddrFromBase58Check(arg(1))
			if e != nil {
				return "", e
			}
			to, e := types.AddrFromBase58Check(arg(2))
			if e != nil {
				return "", e
			}
			amt, ok := new(big.Int).SetString(arg(3), 10)
			if !ok {
				return "", errors.New("bad amount")
			}
			err = t.TokenBalanceTransfer(from, to, amt, "script")
		case "nop":
		default:
			return "", fmt.Errorf("unknown step %q", step)
		}
		if err != nil {
			return "", err
		}
	}
	return strings.Join(reads, "|"), nil
}

func (t *VT) TxScript(_ *types.Sender, script string) (string, error)     { return t.run(script) }
func (t *VT) TxScriptNS(script string) (string, error)                    { return t.run(script) }
func (t *VT) NBTxScriptNb(_ *types.Sender, script string) (string, error) { return t.run(script) }
func (t *VT) NBTxScriptNbNS(script string) (string, error)                { return t.run(script) }
func (t *VT) QueryPoke(_ *types.Sender, script string) (string, error)    { return t.run(script) }
func (t *VT) QueryPokeNS(script string) (string, error)                   { return t.run(script) }

// TxEcho has two string parameters after the sender (used by tamper tests: two adjacent fields).
func (t *VT) TxEcho(_ *types.Sender, a string, b string) (string, error) {
	if err := t.GetStub().PutState("echo", []byte(a+"|"+b)); err != nil {
		return "", err
	}
	return a + "|" + b, nil
}

// TxWhoAmI / NBTxWhoAmINb / QueryWhoAmIQ report the authenticated sender and leave a mark.
func (t *VT) TxWhoAmI(sender *types.Sender) (string, error) {
	if err := t.GetStub().PutState("who", []byte(sender.Address().String())); err != nil {
		return "", err
	}
	return sender.Address().String(), nil
}

func (t *VT) NBTxWhoAmINb(sender *types.Sender) (string, error) { return t.TxWhoAmI(sender) }

func (t *VT) QueryWhoAmIQ(sender *types.Sender) (string, error) { return t.TxWhoAmI(sender) }

// NBTxEchoNb is TxEcho on the immediate route.
func (t *VT) NBTxEchoNb(s *types.Sender, a string, b string) (string, error) {
	return t.TxEcho(s, a, b)
}

// TxEchoB has the same shape as TxEcho (used to test that the function name is covered).
func (t *VT) TxEchoB(s *types.Sender, a string, b string) (string, error) { return t.TxEcho(s, a, b) }

// QueryCfgDump reports the configuration in force during this invocation (as applied by Configure).
func (t *VT) QueryCfgDump() (string, error) {
	cc, tc := t.ContractConfig(), t.TokenConfig()
	return strings.Join([]string{
		"sym=" + cc.GetSymbol(), "ski=" + cc.GetRobotSKI(), "admin=" + cc.GetAdmin().GetAddress(),
		"issuer=" + tc.GetIssuer().GetAddress(), "fs=" + tc.GetFeeSetter().GetAddress(),
		"dis=" + strings.Join(cc.GetOptions().GetDisabledFunctions(), ","),
	}, " "), nil
}

// NBTxTransferNb is the library transfer on the immediate route (end-to-end pipeline model: the
// route without nonce bookkeeping).
func (t *VT) NBTxTransferNb(sender *types.Sender, to *types.Address, amount *big.Int, ref string) error {
	return t.TxTransfer(sender, to, amount, ref)
}

// TxLedgerApi calls one function of the balance API (core/bc_balances.go) by name.
// call = fn|a|b|tok|amt   or, for the multi-asset functions,   fn|a|b|group:amount,group:amount
func (t *VT) TxLedgerApi(_ *types.Sender, call string) error {
	p := strings.Split(call, "|")
	if len(p) < 4 {
		return errors.New("bad call")
	}
	a, err := types.AddrFromBase58Check(p[1])
	if err != nil {
		return err
	}
	var b *types.Address
	if p[2] != "" {
		if b, err = types.AddrFromBase58Check(p[2]); err != nil {
			return err
		}
	}
	if len(p) == 4 {
		var assets []*pb.Asset
		if p[3] != "" {
			for _, it := range strings.Split(p[3], ",") {
				q := strings.SplitN(it, ":", 2)
				if len(q) != 2 {
					return errors.New("bad asset")
				}
				n, ok := new(big.Int).SetString(q[1], 10)
				if !ok {
					return errors.New("bad amount")
				}
				assets = append(assets, &pb.Asset{Group: q[0], Amount: n.Bytes()})
			}
		}
		switch p[0] {
		case "allowedIndAdd":
			return t.AllowedIndustrialBalanceAdd(a, assets, "api")
		case "allowedIndSub":
			return t.AllowedIndustrialBalanceSub(a, assets, "api")
		case "allowedIndTransfer":
			return t.AllowedIndustrialBalanceTransfer(a, b, assets, "api")
		}
		return errors.New("unknown multi-asset function " + p[0])
	}
	tok := p[3]
	n, ok := new(big.Int).SetString(p[4], 10)
	if !ok {
		return errors.New("bad amount")
	}
	switch p[0] {
	case "tokenAdd":
		return t.TokenBalanceAdd(a, n, "api")
	case "tokenAddWithReason":
		return t.TokenBalanceAddWithReason(a, n, "api")
	case "tokenAddWithTicker":
		return t.TokenBalanceAddWithTicker(a, n, tok, "api")
	case "tokenSub":
		return t.TokenBalanceSub(a, n, "api")
	case "tokenSubWithTicker":
		return t.TokenBalanceSubWithTicker(a, n, tok, "api")
	case "tokenTransfer":
		return t.TokenBalanceTransfer(a, b, n, "api")
	case "tokenLock":
		return t.TokenBalanceLock(a, n)
	case "tokenUnlock":
		return t.TokenBalanceUnlock(a, n)
	case "tokenTransferLocked":
		return t.TokenBalanceTransferLocked(a, b, n, "api")
	case "tokenBurnLocked":
		return t.TokenBalanceBurnLocked(a, n, "api")
	case "indAdd":
		return t.IndustrialBalanceAdd(tok, a, n, "api")
	case "indSub":
		return t.IndustrialBalanceSub(tok, a, n, "api")
	case "indTransfer":
		return t.IndustrialBalanceTransfer(tok, a, b, n, "api")
	case "indLock":
		return t.IndustrialBalanceLock(tok, a, n)
	case "indUnlock":
		return t.IndustrialBalanceUnLock(tok, a, n)
	case "indTransferLocked":
		return t.IndustrialBalanceTransferLocked(tok, a, b, n, "api")
	case "indBurnLocked":
		return t.IndustrialBalanceBurnLocked(tok, a, n, "api")
	case "allowedAdd":
		return t.AllowedBalanceAdd(tok, a, n, "api")
	case "allowedSub":
		return t.AllowedBalanceSub(tok, a, n, "api")
	case "allowedTransfer":
		return t.AllowedBalanceTransfer(tok, a, b, n, "api")
	case "allowedLock":
		return t.AllowedBalanceLock(tok, a, n)
	case "allowedUnlock":
		return t.AllowedBalanceUnLock(tok, a, n)
	case "allowedTransferLocked":
		return t.AllowedBalanceTransferLocked(tok, a, b, n, "api")
	case "allowedBurnLocked":
		return t.AllowedBalanceBurnLocked(tok, a, n, "api")
	}
	return errors.New("unknown function " + p[0])
}

// NBTxLegacy1Nb / NBTxLegacy2Nb authenticate themselves through the backward-compatible helper
// core.CheckSign (one and two signer keys) and report who they were authenticated as.
func (t *VT) NBTxLegacy1Nb(arg string, k1 string, s1 string) (string, error) {
	addr, _, err := core.CheckSign(t.GetStub(), "legacy1Nb", []string{arg}, []string{k1, s1})
	if err != nil {
		return "", err
	}
	if err = t.GetStub().PutState("who", []byte(addr.String())); err != nil {
		return "", err
	}
	return addr.String(), nil
}

func (t *VT) NBTxLegacy2Nb(arg string, k1 string, k2 string, s1 string, s2 string) (string, error) {
	addr, _, err := core.CheckSign(t.GetStub(), "legacy2Nb", []string{arg}, []string{k1, k2, s1, s2})
	if err != nil {
		return "", err
	}
	if err = t.GetStub().PutState("who", []byte(addr.String())); err != nil {
		return "", err
	}
	return addr.String(), nil
}

// QueryTouch is a query without any parameter whose body attempts every kind of write.
func (t *VT) QueryTouch() (string, error) {
	return t.run("put:qk:qv;del:seedk;evt:qe:payload;vp:qk:ep;pput:col:qk:v;pdel:col:qk;ppurge:col:qk;pvp:col:qk:ep")
}
