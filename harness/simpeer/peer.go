package simpeer

import (
	"bytes"
	"crypto/ecdsa"
	"crypto/elliptic"
	"crypto/rand"
	"crypto/sha256"
	"crypto/x509"
	"crypto/x509/pkix"
	"encoding/hex"
	"encoding/json"
	"encoding/pem"
	"fmt"
	"math/big"
	"sort"
	"strings"
	"sync"
	"sync/atomic"
	"time"

	"github.com/anoideaopen/foundation/core/types"
	"github.com/anoideaopen/foundation/keys"
	fpb "github.com/anoideaopen/foundation/proto"
	"github.com/btcsuite/btcutil/base58"
	"github.com/golang/protobuf/proto" //nolint:staticcheck
	"github.com/golang/protobuf/ptypes/timestamp"
	"github.com/hyperledger/fabric-chaincode-go/shim"
	"github.com/hyperledger/fabric-protos-go/msp"
	pb "github.com/hyperledger/fabric-protos-go/peer"
	"golang.org/x/crypto/sha3"
)

// ---------------------------------------------------------------- identities (creator certs)

// Identity is an x509 creator identity.
type Identity struct {
	Creator []byte // serialized msp.SerializedIdentity
	SKIHex  string // sha256 of the marshalled public key, hex
	HashHex string // sha3-256 of the creator bytes, hex
}

// NewIdentity creates a self-signed ECDSA P-256 certificate with the given OUs.
func NewIdentity(mspID string, ous ...string) *Identity {
	priv, err := ecdsa.GenerateKey(elliptic.P256(), rand.Reader)
	if err != nil {
		panic(err)
	}
	tmpl := &x509.Certificate{
		SerialNumber: big.NewInt(time.Now().UnixNano()),
		Subject:      pkix.Name{CommonName: "u", OrganizationalUnit: ous},
		NotBefore:    time.Unix(1600000000, 0),
		NotAfter:     time.Unix(2600000000, 0),
		KeyUsage:     x509.KeyUsageDigitalSignature,
	}
	der, err := x509.CreateCertificate(rand.Reader, tmpl, tmpl, &priv.PublicKey, priv)
	if err != nil {
		panic(err)
	}
	pemBytes := pem.EncodeToMemory(&pem.Block{Type: "CERTIFICATE", Bytes: der})
	creator, _ := proto.Marshal(&msp.SerializedIdentity{Mspid: mspID, IdBytes: pemBytes})
	ski := sha256.Sum256(elliptic.Marshal(priv.Curve, priv.X, priv.Y)) //nolint:staticcheck
	hc := sha3.Sum256(creator)
	return &Identity{Creator: creator, SKIHex: hex.EncodeToString(ski[:]), HashHex: hex.EncodeToString(hc[:])}
}

// ---------------------------------------------------------------- users (signing keys)

// User is a signing key with its ACL address.
type User struct {
	Name    string
	KT      fpb.KeyType
	Keys    *keys.Keys
	PubB58  string
	Addr    string // base58check
	AddrRaw []byte
}

func AddrOfKeys(pubs ...[]byte) (string, []byte) {
	bs := make([][]byte, len(pubs))
	copy(bs, pubs)
	sort.Slice(bs, func(i, j int) bool { return bytes.Compare(bs[i], bs[j]) < 0 })
	h := sha3.Sum256(bytes.Join(bs, nil))
	return base58.CheckEncode(h[1:], h[0]), h[:]
}

func NewUser(name string, kt fpb.KeyType) *User {
	k, err := keys.GenerateKeysByKeyType(kt)
	if err != nil {
		panic(err)
	}
	addr, raw := AddrOfKeys(k.PublicKeyBytes)
	return &User{Name: name, KT: kt, Keys: k, PubB58: k.PublicKeyBase58, Addr: addr, AddrRaw: raw}
}

// Sign returns the base58 signature of message by this user.
func (u *User) Sign(message []byte) string {
	_, sig, err := keys.SignMessageByKeyType(u.KT, u.Keys, message)
	if err != nil {
		panic(err)
	}
	return base58.Encode(sig)
}

// ---------------------------------------------------------------- ACL service

// ACLMode selects the behaviour of the access-control service for one key list.
type ACLMode int

const (
	ACLOk ACLMode = iota
	ACLStatus500
	ACLEmpty
	ACLGarbled
)

type ACLEntry struct {
	Mode ACLMode
	Resp *fpb.AclResponse
}

// ACL is a programmable in-process access-control chaincode.
type ACL struct {
	mu       sync.Mutex
	ByKeys   map[string]*ACLEntry        // "k1/k2/..." as sent by the chaincode
	KeyTypes map[string]fpb.KeyType      // per public key (base58)
	Accounts map[string]*fpb.AccountInfo // per address (base58check)
	UserIDs  map[string]string           // per address: user id carried in pb.Address
	Rights   map[string]bool
	Calls    int
	// Force, when set, overrides every answer (fault injection for C14):
	// status | status503 | timeout | empty | garbled | noaddr | emptyaddr | shortaddr | badbatch
	Force string
}

func NewACL() *ACL {
	return &ACL{ByKeys: map[string]*ACLEntry{}, KeyTypes: map[string]fpb.KeyType{}, Accounts: map[string]*fpb.AccountInfo{}, UserIDs: map[string]string{}, Rights: map[string]bool{}}
}

func (a *ACL) Register(u *User) { a.mu.Lock(); a.KeyTypes[u.PubB58] = u.KT; a.mu.Unlock() }

// DefaultResponse is what a well-behaved ACL answers for a key list: the address derived from
// the (sorted) keys, one key type per key, policy N as given (0 = absent).
func (a *ACL) DefaultResponse(keysB58 []string, n uint32) *fpb.AclResponse {
	pubs := make([][]byte, len(keysB58))
	kts := make([]fpb.KeyType, len(keysB58))
	for i, k := range keysB58 {
		pubs[i] = base58.Decode(k)
		kts[i] = a.KeyTypes[k]
	}
	addrS, raw := AddrOfKeys(pubs...)
	acc := a.Accounts[addrS]
	if acc == nil {
		acc = &fpb.AccountInfo{KycHash: "kyc"}
	}
	return &fpb.AclResponse{
		Account: acc,
		Address: &fpb.SignedAddress{
			Address:         &fpb.Address{Address: raw, UserID: a.UserIDs[addrS], IsMultisig: len(keysB58) > 1},
			SignaturePolicy: &fpb.SignaturePolicy{N: n},
		},
		KeyTypes: kts,
	}
}

func (a *ACL) invokeOne(args []string) pb.Response {
	if len(args) == 0 {
		return shim.Error("no fn")
	}
	switch a.Force {
	case "status":
		return shim.Error("acl says no")
	case "status503":
		return pb.Response{Status: 503, Message: "service unavailable"}
	case "timeout":
		return shim.Error("INVOKE_CHAINCODE failed: transaction ID: x: timeout expired while executing transaction")
	case "empty":
		return shim.Success(nil)
	case "garbled":
		return shim.Success([]byte{0xff, 0xff, 0xff, 0x01, 0x02})
	case "badbatch":
		if args[0] == "getAccountsInfo" {
			return shim.Success([]byte("[{\"status\":200,\"payload\":\"!!\"},null,7]"))
		}
	case "noaddr", "emptyaddr", "shortaddr":
		if args[0] == "checkKeys" && len(args) >= 2 {
			r := a.DefaultResponse(strings.Split(args[1], "/"), 0)
			switch a.Force {
			case "noaddr":
				r.Address = nil
			case "emptyaddr":
				r.Address.Address.Address = nil
			case "shortaddr":
				r.Address.Address.Address = []byte{7}
			}
			data, _ := proto.Marshal(r)
			return shim.Success(data)
		}
		if args[0] == "checkAddress" {
			data, _ := proto.Marshal(&fpb.Address{Address: []byte{7}})
			return shim.Success(data)
		}
	}
	switch args[0] {
	case "checkKeys":
		if len(args) < 2 {
			return shim.Error("no keys")
		}
		if e, ok := a.ByKeys[args[1]]; ok {
			switch e.Mode {
			case ACLStatus500:
				return shim.Error("acl says no")
			case ACLEmpty:
				return shim.Success(nil)
			case ACLGarbled:
				return shim.Success([]byte{0xff, 0xff, 0xff, 0x01, 0x02})
			}
			data, _ := proto.Marshal(e.Resp)
			return shim.Success(data)
		}
		ks := strings.Split(args[1], "/")
		n := uint32(0)
		data, _ := proto.Marshal(a.DefaultResponse(ks, n))
		return shim.Success(data)
	case "checkAddress":
		if len(args) < 2 {
			return shim.Error("no address")
		}
		addr, err := types.AddrFromBase58Check(args[1])
		if err != nil {
			return shim.Error(err.Error())
		}
		addr.UserID = a.UserIDs[args[1]]
		data, _ := proto.Marshal((*fpb.Address)(addr))
		return shim.Success(data)
	case "getAccountInfo":
		if len(args) < 2 {
			return shim.Error("no address")
		}
		acc := a.Accounts[args[1]]
		if acc == nil {
			acc = &fpb.AccountInfo{KycHash: "kyc"}
		}
		data, _ := json.Marshal(acc)
		return shim.Success(data)
	case "getAccountOperationRight":
		data, _ := proto.Marshal(&fpb.HaveRight{HaveRight: a.Rights[strings.Join(args[1:], "|")]})
		return shim.Success(data)
	case "getAccountsInfo":
		responses := make([]pb.Response, 0, len(args)-1)
		for _, x := range args[1:] {
			var inner []string
			if err := json.Unmarshal([]byte(x), &inner); err != nil {
				continue
			}
			responses = append(responses, a.invokeOne(inner))
		}
		b, _ := json.Marshal(responses)
		return shim.Success(b)
	}
	return shim.Error("unknown acl fn " + args[0])
}

// Invoker returns the cross-chaincode hook for stubs.
func (a *ACL) Invoker() Invoker {
	return func(_ *Stub, cc, ch string, args [][]byte) pb.Response {
		if cc != "acl" || ch != "acl" {
			return shim.Error("unknown chaincode " + cc + "/" + ch)
		}
		a.mu.Lock()
		defer a.mu.Unlock()
		a.Calls++
		sargs := make([]string, len(args))
		for i, x := range args {
			sargs[i] = string(x)
		}
		return a.invokeOne(sargs)
	}
}

// ---------------------------------------------------------------- peer

var txCounter uint64

// NewTxID returns a fresh hex transaction id.
func NewTxID() string {
	n := atomic.AddUint64(&txCounter, 1)
	// hex letters in every id: the upper-case spelling of an id is another string
	return fmt.Sprintf("fade%028x", n)
}

// Peer hosts one chaincode instance on one channel ledger.
type Peer struct {
	Channel string
	CCName  string
	L       *Ledger
	CC      shim.Chaincode
	ACL     *ACL
	Clock   int64 // seconds, harness-controlled
	// StubHook is given to every stub created from now on (see Stub.Hook)
	StubHook func(op string)
	// Transient is the transient map every proposal carries (trace context of the client), if any.
	Transient map[string][]byte
}

// Result is the outcome of one simulated (and possibly committed) proposal.
type Result struct {
	Resp      pb.Response
	Stub      *Stub
	Committed bool
	Panic     interface{}
}

func (r *Result) OK() bool { return r.Panic == nil && r.Resp.Status < 400 }

func (p *Peer) newStub(creator []byte, txid string, args [][]byte) *Stub {
	return &Stub{
		L: p.L, TxID: txid, Channel: p.Channel, Args: args, Creator: creator,
		SP:      BuildSignedProposal(p.CCName, args),
		TS:      &timestamp.Timestamp{Seconds: p.Clock},
		Invoker: p.ACL.Invoker(), Transient: p.Transient, Hook: p.StubHook,
	}
}

func toBytes(fn string, args []string) [][]byte {
	out := make([][]byte, 0, len(args)+1)
	out = append(out, []byte(fn))
	for _, a := range args {
		out = append(out, []byte(a))
	}
	return out
}

// Simulate runs one proposal without committing it. A panic on the calling goroutine is caught
// and reported (the real shim would die of it).
func (p *Peer) Simulate(creator []byte, txid, fn string, args ...string) (res *Result) {
	st := p.newStub(creator, txid, toBytes(fn, args))
	res = &Result{Stub: st}
	func() {
		defer func() {
			if rc := recover(); rc != nil {
				res.Panic = rc
			}
		}()
		res.Resp = p.CC.Invoke(st)
	}()
	return res
}

// Invoke simulates and, if the chaincode answered with status < 400, commits.
func (p *Peer) Invoke(creator []byte, txid, fn string, args ...string) *Result {
	res := p.Simulate(creator, txid, fn, args...)
	if res.OK() {
		if err := res.Stub.Commit(); err != nil {
			res.Resp = pb.Response{Status: 500, Message: "commit: " + err.Error()}
		} else {
			res.Committed = true
		}
	}
	return res
}

// Init runs the chaincode's Init with raw arguments (no function name) and commits on success.
// SimInit simulates an initialisation proposal without committing its write-set.
func (p *Peer) SimInit(creator []byte, txid string, args ...string) (res *Result) {
	raw := make([][]byte, 0, len(args))
	for _, a := range args {
		raw = append(raw, []byte(a))
	}
	st := p.newStub(creator, txid, raw)
	res = &Result{Stub: st}
	defer func() {
		if rc := recover(); rc != nil {
			res.Panic = rc
		}
	}()
	res.Resp = p.CC.Init(st)
	return res
}

func (p *Peer) Init(creator []byte, txid string, args ...string) (res *Result) {
	raw := make([][]byte, 0, len(args))
	for _, a := range args {
		raw = append(raw, []byte(a))
	}
	st := p.newStub(creator, txid, raw)
	res = &Result{Stub: st}
	func() {
		defer func() {
			if rc := recover(); rc != nil {
				res.Panic = rc
			}
		}()
		res.Resp = p.CC.Init(st)
	}()
	if res.OK() {
		if err := st.Commit(); err == nil {
			res.Committed = true
		}
	}
	return res
}

// ---------------------------------------------------------------- signed requests

// SignedArgs builds the argument vector of a signed request:
// [reqID, cc, channel, args..., nonce, pubkeys..., signatures...].
// sigs may override individual signature strings (nil entry = sign properly).
func SignedArgs(fn, ccName, channel string, methodArgs []string, nonce string, signers []*User) []string {
	chunks := []string{"", ccName, channel}
	chunks = append(chunks, methodArgs...)
	chunks = append(chunks, nonce)
	for _, u := range signers {
		chunks = append(chunks, u.PubB58)
	}
	msg := []byte(fn + strings.Join(chunks, ""))
	out := append([]string(nil), chunks...)
	for _, u := range signers {
		out = append(out, u.Sign(msg))
	}
	return out
}
