// Package simpeer is a small simulated Fabric peer: one committed store per channel and one
// Stub object per invocation with Fabric's simulation semantics (reads see committed state
// only, writes are buffered and applied iff the chaincode replies with status < 400).
package simpeer

import (
	"errors"
	"fmt"
	"sort"
	"strings"
	"sync"
	"unicode/utf8"

	"github.com/golang/protobuf/proto" //nolint:staticcheck
	"github.com/golang/protobuf/ptypes/timestamp"
	"github.com/hyperledger/fabric-chaincode-go/shim"
	"github.com/hyperledger/fabric-protos-go/ledger/queryresult"
	pb "github.com/hyperledger/fabric-protos-go/peer"
)

const (
	minUnicodeRuneValue   = 0
	maxUnicodeRuneValue   = utf8.MaxRune
	compositeKeyNamespace = "\x00"
	emptyKeySubstitute    = "\x01"
)

// Ledger is the committed state of one channel/chaincode namespace.
type Ledger struct {
	mu     sync.Mutex
	State  map[string][]byte
	VP     map[string][]byte            // state validation parameters
	Priv   map[string]map[string][]byte // private data
	Events []*pb.ChaincodeEvent
	Strict bool // "CouchDB rules": refuse empty keys on delete and keys starting with '_'
	// FailGet: fault injection - the next point read of a key listed here fails (once per count)
	FailGet map[string]int
}

func NewLedger() *Ledger {
	return &Ledger{State: map[string][]byte{}, VP: map[string][]byte{}, Priv: map[string]map[string][]byte{}}
}

// Snapshot returns a copy of the committed state.
func (l *Ledger) Snapshot() map[string][]byte {
	l.mu.Lock()
	defer l.mu.Unlock()
	m := make(map[string][]byte, len(l.State))
	for k, v := range l.State {
		m[k] = append([]byte(nil), v...)
	}
	return m
}

// Restore replaces the committed state.
func (l *Ledger) Restore(m map[string][]byte) {
	l.mu.Lock()
	defer l.mu.Unlock()
	l.State = make(map[string][]byte, len(m))
	for k, v := range m {
		l.State[k] = append([]byte(nil), v...)
	}
}

func (l *Ledger) get(k string) []byte {
	l.mu.Lock()
	defer l.mu.Unlock()
	v, ok := l.State[k]
	if !ok {
		return nil
	}
	return append([]byte(nil), v...)
}

func (l *Ledger) sortedKeys() []string {
	l.mu.Lock()
	defer l.mu.Unlock()
	ks := make([]string, 0, len(l.State))
	for k := range l.State {
		ks = append(ks, k)
	}
	sort.Strings(ks)
	return ks
}

// Write is one entry of a simulation's write-set.
type Write struct {
	Key      string
	Value    []byte
	IsDelete bool
}

// Invoker answers cross-chaincode calls (the ACL service).
type Invoker func(stub *Stub, chaincode, channel string, args [][]byte) pb.Response

// Stub implements shim.ChaincodeStubInterface for exactly one invocation.
type Stub struct {
	L          *Ledger
	TxID       string
	Channel    string
	Args       [][]byte
	Creator    []byte
	CreatorErr error
	SP         *pb.SignedProposal
	TS         *timestamp.Timestamp
	Transient  map[string][]byte
	Invoker    Invoker
	// Hook, when set, is called at the start of every state read, state write and cross-chaincode
	// call: switch points inside library code for the C17 scheduler.
	Hook func(op string)

	mu         sync.Mutex
	writes     map[string]*Write
	order      []string
	Event      *pb.ChaincodeEvent
	VPWrites   map[string][]byte
	PrivWrites []string // log "put coll key" / "del coll key" ...
	Calls      []string // cross-chaincode call log
	ReadKeys   []string
}

var _ shim.ChaincodeStubInterface = (*Stub)(nil)

func (s *Stub) GetArgs() [][]byte { return s.Args }
func (s *Stub) GetStringArgs() []string {
	out := make([]string, 0, len(s.Args))
	for _, a := range s.Args {
		out = append(out, string(a))
	}
	return out
}

func (s *Stub) GetFunctionAndParameters() (string, []string) {
	all := s.GetStringArgs()
	if len(all) >= 1 {
		return all[0], all[1:]
	}
	return "", []string{}
}
func (s *Stub) GetArgsSlice() ([]byte, error) {
	var res []byte
	for _, a := range s.Args {
		res = append(res, a...)
	}
	return res, nil
}
func (s *Stub) GetTxID() string      { return s.TxID }
func (s *Stub) GetChannelID() string { return s.Channel }

func (s *Stub) InvokeChaincode(chaincodeName string, args [][]byte, channel string) pb.Response {
	if s.Hook != nil {
		s.Hook("InvokeChaincode")
	}
	s.mu.Lock()
	fn := ""
	if len(args) > 0 {
		fn = string(args[0])
	}
	s.Calls = append(s.Calls, chaincodeName+"/"+channel+":"+fn)
	s.mu.Unlock()
	if s.Invoker == nil {
		return pb.Response{Status: 500, Message: "no such chaincode"}
	}
	return s.Invoker(s, chaincodeName, channel, args)
}

func (s *Stub) GetState(key string) ([]byte, error) {
	if s.Hook != nil {
		s.Hook("GetState")
	}
	s.mu.Lock()
	s.ReadKeys = append(s.ReadKeys, key)
	s.mu.Unlock()
	s.L.mu.Lock()
	if s.L.FailGet[key] > 0 {
		s.L.FailGet[key]--
		s.L.mu.Unlock()
		return nil, errors.New("ledger read failed (injected)")
	}
	s.L.mu.Unlock()
	return s.L.get(key), nil
}

func (s *Stub) record(w *Write) {
	s.mu.Lock()
	defer s.mu.Unlock()
	if s.writes == nil {
		s.writes = map[string]*Write{}
	}
	if _, ok := s.writes[w.Key]; !ok {
		s.order = append(s.order, w.Key)
	}
	s.writes[w.Key] = w
}

func (s *Stub) PutState(key string, value []byte) error {
	if s.Hook != nil {
		s.Hook("PutState")
	}
	if key == "" {
		return errors.New("key must not be an empty string")
	}
	if s.L.Strict && strings.HasPrefix(key, "_") {
		return errors.New("invalid key. Cannot begin with an underscore")
	}
	s.record(&Write{Key: key, Value: append([]byte(nil), value...), IsDelete: len(value) == 0})
	return nil
}

func (s *Stub) DelState(key string) error {
	if s.L.Strict && key == "" {
		return errors.New("invalid key. Empty string is not supported as a key by couchdb")
	}
	s.record(&Write{Key: key, IsDelete: true})
	return nil
}

func (s *Stub) SetStateValidationParameter(key string, ep []byte) error {
	s.mu.Lock()
	defer s.mu.Unlock()
	if s.VPWrites == nil {
		s.VPWrites = map[string][]byte{}
	}
	s.VPWrites[key] = append([]byte(nil), ep...)
	return nil
}

func (s *Stub) GetStateValidationParameter(key string) ([]byte, error) {
	s.L.mu.Lock()
	defer s.L.mu.Unlock()
	return s.L.VP[key], nil
}

type kvIter struct {
	kvs []*queryresult.KV
	i   int
}

func (it *kvIter) HasNext() bool { return it.i < len(it.kvs) }
func (it *kvIter) Close() error  { return nil }
func (it *kvIter) Next() (*queryresult.KV, error) {
	if it.i >= len(it.kvs) {
		return nil, errors.New("no such key")
	}
	kv := it.kvs[it.i]
	it.i++
	return kv, nil
}

func (s *Stub) rangeKVs(startKey, endKey string) []*queryresult.KV {
	var out []*queryresult.KV
	for _, k := range s.L.sortedKeys() {
		if k < startKey {
			continue
		}
		if endKey != "" && k >= endKey {
			continue
		}
		out = append(out, &queryresult.KV{Key: k, Value: s.L.get(k)})
	}
	return out
}

func validateSimpleKeys(keys ...string) error {
	for _, k := range keys {
		if len(k) > 0 && k[0] == compositeKeyNamespace[0] {
			return fmt.Errorf("first character of the key [%s] contains a null character which is not allowed", k)
		}
	}
	return nil
}

func (s *Stub) GetStateByRange(startKey, endKey string) (shim.StateQueryIteratorInterface, error) {
	if startKey == "" {
		startKey = emptyKeySubstitute
	}
	if err := validateSimpleKeys(startKey, endKey); err != nil {
		return nil, err
	}
	return &kvIter{kvs: s.rangeKVs(startKey, endKey)}, nil
}

func (s *Stub) page(startKey, endKey string, pageSize int32, bookmark string) (shim.StateQueryIteratorInterface, *pb.QueryResponseMetadata, error) {
	if bookmark != "" {
		startKey = bookmark
	}
	all := s.rangeKVs(startKey, endKey)
	n := int(pageSize)
	if n < 0 {
		n = 0
	}
	b := ""
	if len(all) > n {
		b = all[n].Key
		all = all[:n]
	}
	return &kvIter{kvs: all}, &pb.QueryResponseMetadata{FetchedRecordsCount: int32(len(all)), Bookmark: b}, nil
}

func (s *Stub) GetStateByRangeWithPagination(startKey, endKey string, pageSize int32, bookmark string) (shim.StateQueryIteratorInterface, *pb.QueryResponseMetadata, error) {
	if startKey == "" {
		startKey = emptyKeySubstitute
	}
	if err := validateSimpleKeys(startKey, endKey); err != nil {
		return nil, nil, err
	}
	return s.page(startKey, endKey, pageSize, bookmark)
}

func (s *Stub) GetStateByPartialCompositeKey(objectType string, keys []string) (shim.StateQueryIteratorInterface, error) {
	pk, err := s.CreateCompositeKey(objectType, keys)
	if err != nil {
		return nil, err
	}
	return &kvIter{kvs: s.rangeKVs(pk, pk+string(maxUnicodeRuneValue))}, nil
}

func (s *Stub) GetStateByPartialCompositeKeyWithPagination(objectType string, keys []string, pageSize int32, bookmark string) (shim.StateQueryIteratorInterface, *pb.QueryResponseMetadata, error) {
	pk, err := s.CreateCompositeKey(objectType, keys)
	if err != nil {
		return nil, nil, err
	}
	return s.page(pk, pk+string(maxUnicodeRuneValue), pageSize, bookmark)
}

func (s *Stub) CreateCompositeKey(objectType string, attributes []string) (string, error) {
	return shim.CreateCompositeKey(objectType, attributes)
}

func (s *Stub) SplitCompositeKey(compositeKey string) (string, []string, error) {
	componentIndex := 1
	components := []string{}
	for i := 1; i < len(compositeKey); i++ {
		if compositeKey[i] == minUnicodeRuneValue {
			components = append(components, compositeKey[componentIndex:i])
			componentIndex = i + 1
		}
	}
	if len(components) == 0 {
		return "", nil, errors.New("invalid composite key")
	}
	return components[0], components[1:], nil
}

func (s *Stub) GetQueryResult(string) (shim.StateQueryIteratorInterface, error) {
	return nil, errors.New("not implemented")
}

func (s *Stub) GetQueryResultWithPagination(string, int32, string) (shim.StateQueryIteratorInterface, *pb.QueryResponseMetadata, error) {
	return nil, nil, errors.New("not implemented")
}

func (s *Stub) GetHistoryForKey(string) (shim.HistoryQueryIteratorInterface, error) {
	return nil, errors.New("not implemented")
}

func (s *Stub) GetPrivateData(collection, key string) ([]byte, error) {
	s.L.mu.Lock()
	defer s.L.mu.Unlock()
	return s.L.Priv[collection][key], nil
}
func (s *Stub) GetPrivateDataHash(string, string) ([]byte, error) { return nil, nil }
func (s *Stub) logPriv(op, c, k string) {
	s.mu.Lock()
	defer s.mu.Unlock()
	s.PrivWrites = append(s.PrivWrites, op+" "+c+" "+k)
}
func (s *Stub) PutPrivateData(collection string, key string, value []byte) error {
	s.logPriv("put", collection, key)
	return nil
}
func (s *Stub) DelPrivateData(collection, key string) error {
	s.logPriv("del", collection, key)
	return nil
}
func (s *Stub) PurgePrivateData(collection, key string) error {
	s.logPriv("purge", collection, key)
	return nil
}
func (s *Stub) SetPrivateDataValidationParameter(collection, key string, ep []byte) error {
	s.logPriv("setvp", collection, key)
	return nil
}
func (s *Stub) GetPrivateDataValidationParameter(string, string) ([]byte, error) { return nil, nil }
func (s *Stub) GetPrivateDataByRange(string, string, string) (shim.StateQueryIteratorInterface, error) {
	return &kvIter{}, nil
}
func (s *Stub) GetPrivateDataByPartialCompositeKey(string, string, []string) (shim.StateQueryIteratorInterface, error) {
	return &kvIter{}, nil
}
func (s *Stub) GetPrivateDataQueryResult(string, string) (shim.StateQueryIteratorInterface, error) {
	return &kvIter{}, nil
}
func (s *Stub) GetCreator() ([]byte, error)              { return s.Creator, s.CreatorErr }
func (s *Stub) GetTransient() (map[string][]byte, error) { return s.Transient, nil }
func (s *Stub) GetBinding() ([]byte, error)              { return nil, nil }
func (s *Stub) GetDecorations() map[string][]byte        { return nil }
func (s *Stub) GetSignedProposal() (*pb.SignedProposal, error) {
	return s.SP, nil
}
func (s *Stub) GetTxTimestamp() (*timestamp.Timestamp, error) {
	if s.TS == nil {
		return nil, errors.New("no timestamp")
	}
	return s.TS, nil
}
func (s *Stub) SetEvent(name string, payload []byte) error {
	if name == "" {
		return errors.New("event name can not be empty string")
	}
	s.mu.Lock()
	defer s.mu.Unlock()
	s.Event = &pb.ChaincodeEvent{EventName: name, Payload: append([]byte(nil), payload...), TxId: s.TxID}
	return nil
}

// AddAccountingRecord exists so that ledger helpers that look for an accounting sink find one
// (mock/stub has the same method); the direct route ignores the records.
// (Intentionally not provided: the real shim stub has no such method.)

// WriteSet returns the simulation's writes sorted by key.
func (s *Stub) WriteSet() []*Write {
	s.mu.Lock()
	defer s.mu.Unlock()
	ks := make([]string, 0, len(s.writes))
	for k := range s.writes {
		ks = append(ks, k)
	}
	sort.Strings(ks)
	out := make([]*Write, 0, len(ks))
	for _, k := range ks {
		out = append(out, s.writes[k])
	}
	return out
}

// HasEffects reports whether the simulation recorded any write, event, validation parameter
// or private-data mutation.
func (s *Stub) HasEffects() bool {
	s.mu.Lock()
	defer s.mu.Unlock()
	return len(s.writes) != 0 || s.Event != nil || len(s.VPWrites) != 0 || len(s.PrivWrites) != 0
}

// Commit applies the write-set and publishes the event (what the committer does for a valid tx).
func (s *Stub) Commit() error {
	ws := s.WriteSet()
	s.L.mu.Lock()
	defer s.L.mu.Unlock()
	for _, w := range ws {
		if s.L.Strict && w.Key == "" {
			return errors.New("invalid key: empty")
		}
	}
	for _, w := range ws {
		if w.IsDelete {
			delete(s.L.State, w.Key)
		} else {
			s.L.State[w.Key] = w.Value
		}
	}
	for k, v := range s.VPWrites {
		s.L.VP[k] = v
	}
	if s.Event != nil {
		s.L.Events = append(s.L.Events, s.Event)
	}
	return nil
}

// BuildSignedProposal creates the signed proposal the chaincode inspects for its own name.
func BuildSignedProposal(ccName string, args [][]byte) *pb.SignedProposal {
	input, _ := proto.Marshal(&pb.ChaincodeInvocationSpec{
		ChaincodeSpec: &pb.ChaincodeSpec{
			ChaincodeId: &pb.ChaincodeID{Name: ccName},
			Input:       &pb.ChaincodeInput{Args: args},
		},
	})
	payload, _ := proto.Marshal(&pb.ChaincodeProposalPayload{Input: input})
	proposal, _ := proto.Marshal(&pb.Proposal{Payload: payload})
	return &pb.SignedProposal{ProposalBytes: proposal}
}
